#!/usr/bin/env python3
"""mkreplay.py <property> <test> <signature> <case.json> <name> [detail] — wrap a case as a regression replay file."""
import json, sys
prop, test, sig, casef, name = sys.argv[1:6]
detail = sys.argv[6] if len(sys.argv) > 6 else ""
case = json.load(open(casef))
json.dump(dict(property=prop, test=test, signature=sig, detail=detail, case=case), open("/verif/replays/%s-%s.json" % (prop, name), "w"), indent=1)
print("wrote /verif/replays/%s-%s.json" % (prop, name))
