#!/opt/veriftools/pyvenv/bin/python
import json,jsonschema,glob,sys
jsonschema.validate(json.load(open('/verif/MANIFEST.json')),json.load(open('/root/.vp/MANIFEST.schema.json')))
es=json.load(open('/root/.vp/EVIDENCE.schema.json'))
for f in sorted(glob.glob('/verif/evidence/*.json')):
    jsonschema.validate(json.load(open(f)),es)
m=json.load(open('/verif/MANIFEST.json'))
ids=[c['property_id'] for c in m['checks']]
na=[c['property_id'] for c in m.get('not_applicable',[])]
allp=[json.loads(l)['id'] for l in open('/verif/properties.jsonl')]
print("valid; claimed",len(ids),"not_applicable",len(na),"unlisted",[p for p in allp if p not in ids and p not in na])
