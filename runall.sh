#!/bin/bash
# runall.sh [tier] [seed...] — run every check of MANIFEST.json once per seed and print one line each
tier=${1:-quick}; shift
seeds=${@:-1}
cd /verif
for s in $seeds; do
  for p in C01 C02 C03 C04 C05 C06 C07 C08 C09 C10 C11 C12 C13 C14 C15 C16 C17 C18 C19 C20; do
    out=$(./check $p --tier $tier --seed $s 2>&1); rc=$?
    echo "seed=$s $p rc=$rc $(echo "$out" | grep -c '^KNOWN-FINDING') known; $(echo "$out" | grep '^OK\|^VIOLATION\|^INFRA\|^ERROR' | head -3 | tr '\n' ' ' | cut -c1-220)"
  done
done
