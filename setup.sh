#!/bin/bash
# Offline setup: build the harness packages against /repo's current tree (warms the build cache).
set -e
cd "$(dirname "$0")/harness"
export GOFLAGS=-mod=mod GOPROXY=off GOSUMDB=off GOTOOLCHAIN=local
[ -f go.sum ] || cp /repo/go.sum go.sum
go build ./... 
go vet -tags verif ./stats ./pt ./refwire >/dev/null 2>&1 || true
go test -tags verif -count=1 -run '^$' ./... >/dev/null
echo "setup ok"
