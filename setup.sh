#!/bin/bash
# Offline setup: build the harness packages against /repo's current tree (warms the build cache)
# and run the self-tests of the in-memory database engine.
set -e
cd "$(dirname "$0")/harness"
export GOFLAGS=-mod=mod GOPROXY=off GOSUMDB=off GOTOOLCHAIN=local
[ -f go.sum ] || cp /repo/go.sum go.sum
go build -tags verif ./...
go test -tags verif -count=1 ./memsql
go test -tags verif -count=1 -run '^$' ./... >/dev/null
echo "setup ok"
