# Per-property run configuration for ./check and source of MANIFEST.json (./mkmanifest.py).
# checks = rapid cases per property function and shard; shards = parallel processes (seed*1009+shard).
HOOK_COMMITS = []
NOT_BUILT = {}
ENGINES = [
    dict(name="faketc", path="harness/faketc", serves_properties=["C04", "C05", "C07", "C14", "C15", "C19"],
         kind_free_text="in-process Seata coordinator stand-in attached through a fake getty.Session (scripts, journal on a logical clock, phase-two origination)"),
    dict(name="refwire", path="harness/refwire", serves_properties=["C12", "C13", "C15"],
         kind_free_text="independent Seata v1 layout table (encoder, decoder, framer) used as differential oracle"),
]
PROPS = {
    "C12": dict(pkg="./props/c12", level="exploration",
                quick=dict(checks=3000, shards=2, watchdog=600),
                thorough=dict(checks=40000, shards=16, watchdog=3000, fuzz=[("FuzzDecodeDifferential", "120s")]),
                manifest=dict(engine="refwire",
                    technique="property-based differential testing (rapid) against an independent layout table; native coverage-guided fuzzing in the thorough tier",
                    text="Generated messages of all 24 types (boundary-length strings, all enum bytes, full-range ids, both result codes, over-long error texts) are encoded by the real codec and compared byte for byte with an independent statement of the Seata v1 layout, decoded both ways and checked for full consumption; the registration/type-code table is enumerated completely. Sampling, not proof: absence of a counter-example among the generated values.",
                    note="Trusted: harness/refwire (layout table written from knowledge of the Java reference codecs, which cannot be fetched offline).")),
    "C13": dict(pkg="./props/c13", level="exploration",
                quick=dict(checks=1500, shards=2, watchdog=600, env=dict(C13_EXH=25)),
                thorough=dict(checks=20000, shards=16, watchdog=3000, env=dict(C13_EXH=300), fuzz=[("FuzzFrames", "180s")]),
                manifest=dict(engine="refwire",
                    technique="property-based testing over message sequences and stream partitions (exhaustive 1-/2-cut partitions for short streams) through a transcribed getty read loop; native fuzzing in the thorough tier",
                    text="Generated frame sequences (real Write and an independent framer) are cut at every 1-/2-cut position (streams ≤96 bytes) or at generated positions biased into headers and head maps, and pushed through a transcription of getty's handleTCPPackage loop around the real reader; delivered messages, consumed lengths, delivery time, leftovers, errors, panics and zero-length consumption (spin) are judged; garbage and corrupted streams are judged for panic/spin only. Sampling plus small exhaustive sub-spaces.",
                    note="Trusted: the transcription of getty 1.5.0's read loop (feed()), harness/refwire framer.")),
    "C04": dict(pkg="./props/c04", level="exploration",
                quick=dict(checks=120, shards=8, watchdog=900),
                thorough=dict(checks=700, shards=16, watchdog=3000),
                manifest=dict(engine="faketc",
                    technique="property-based fault-sequence testing (rapid) of tm.WithGlobalTx against a reference model of the statement, with a scripted in-process coordinator",
                    text="Generated tuples (callback outcome, role, retry counts, begin reaction, k transport errors then ok/failure result, cancellation point; thorough: no reply) are run through the real tm.WithGlobalTx against a scripted fake coordinator attached at the getty seam; the journal of begin/commit/rollback attempts per xid and the return value (nil / error / re-raised panic / crash / hang) are compared with a reference model written from the statement. Sampling of the tuple space (≈10^4 tuples), no proof.",
                    note="Trusted: faketc (coordinator stand-in), the reference model in props/c04; real backoff sleeps are kept. Under cancellation only the weak reading is enforced (DESIGN §5 C04).")),
    "C07": dict(pkg="./props/c07", level="exploration",
                quick=dict(checks=1500, shards=2, watchdog=600),
                thorough=dict(checks=20000, shards=16, watchdog=3000),
                manifest=dict(engine="faketc",
                    technique="program generation (scope trees) checked against a reference interpreter of the propagation semantics; exhaustive enumeration of all two-level trees; round trip of xids through the real gRPC/gin/dubbo integration code",
                    text="Generated scope trees (depth ≤3, fan-out ≤2, 6 propagation modes, outcomes, error propagation, shared or fresh contexts, contexts carried by the real gRPC interceptor pair / gin middleware (httptest) / dubbo filter pair with each accepted key spelling) are executed with the real tm.WithGlobalTx against the fake coordinator; xid seen per scope, entry failures, begin/commit/rollback per xid and the enclosing context after each inner scope are compared with a reference interpreter. All 576 two-level trees × outcome combinations are enumerated. Sampling beyond that.",
                    note="Trusted: the reference interpreter in props/c07 (written from the documented semantics in pkg/tm/constant.go), faketc. gin rejects requests without xid by design; such hops are modelled as hand-built fresh contexts.")),
}
