#!/usr/bin/env python3
"""mkfindings.py — regenerate the findings table of DESIGN.md (section 11) from known_findings.json."""
import json, re
d = json.load(open('/verif/known_findings.json'))
fs = d['findings']
known = [f for f in fs if f['status'] == 'known']
fixed = [f for f in fs if f['status'] == 'fixed']
out = []
out.append("%d genuine defects were repaired in /repo (`fix:` commits, one per defect) and %d are recorded as known findings "
           "(repair not small, or the behaviour is pinned by a shipped test that may not be edited).\n" % (len(fixed), len(known)))
out.append("### 11.1 Known findings (reported as `KNOWN-FINDING`, excluded by construction, witness re-run every time)\n")
out.append("| id | what fails | why not repaired |")
out.append("|---|---|---|")
for f in known:
    what = f['what'].replace('|', '/')
    why = ""
    m = re.search(r"\(([^()]*(pin|not a small|small patch|cannot be repaired|needs)[^()]*)\)\s*$", what)
    if m:
        why = m.group(1)
        what = what[:m.start()].strip()
    out.append("| %s | %s | %s |" % (f['id'], what, why))
out.append("\n### 11.2 Repaired defects (`fixed:` entries; they suppress nothing, their replays run in every check)\n")
out.append("| id | commit | what failed |")
out.append("|---|---|---|")
for f in fixed:
    what = re.sub(r"^fixed: property=\S+ \S+ ", "", f['what']).replace('|', '/')
    out.append("| %s | %s | %s |" % (f['id'], f.get('commit') or '', what))
s = open('/verif/DESIGN.md').read()
a = s.index('<!-- findings:begin -->') + len('<!-- findings:begin -->')
b = s.index('<!-- findings:end -->')
open('/verif/DESIGN.md', 'w').write(s[:a] + "\n" + "\n".join(out) + "\n" + s[b:])
print("findings: %d fixed, %d known" % (len(fixed), len(known)))
