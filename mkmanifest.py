#!/usr/bin/env python3
"""Regenerates MANIFEST.json from checkconf.py (PROPS[..]['manifest']) so the two never drift."""
import json, subprocess
from checkconf import PROPS, ENGINES, HOOK_COMMITS, NOT_BUILT
props = [json.loads(l)["id"] for l in open("properties.jsonl")]
checks, na = [], []
for p in props:
    c = PROPS.get(p)
    if c is None or "manifest" not in c:
        na.append(dict(property_id=p, reason=NOT_BUILT.get(p, "check not built yet in this round; the design (DESIGN.md §5) gives an executable oracle, so the technique applies — listed here only so that no unbuilt check is claimed")))
        continue
    m = c["manifest"]
    e = dict(property_id=p, quick_cmd="./check %s --tier quick" % p, thorough_cmd="./check %s --tier thorough" % p,
             evidence_file="/verif/evidence/%s.json" % p, replay_cmd_template="./check %s --replay {path}" % p,
             engine=m["engine"], technique=m["technique"],
             level_claimed=dict(category=c["level"], text=m["text"], design_ref="DESIGN.md §5 " + p),
             level_note=m["note"])
    checks.append(e)
man = dict(version=1, setup_cmd="./setup.sh",
           hooks=dict(guard="verif", enable="go build tag: every check builds /repo's working tree through the harness module with -tags verif (hooks are add-only files with //go:build verif)",
                      baseline_off_cmd="cd /repo && go test -vet=off -count=1 -timeout 25m ./...",
                      source_commits=HOOK_COMMITS, add_only=True),
           engines=ENGINES, checks=checks, not_applicable=na,
           notes="Driver: ./check <id> [--tier quick|thorough] [--replay file]; VERIF_SEED selects the rapid seed (seed*1009+shard). Known findings: known_findings.json. See DESIGN.md.")
json.dump(man, open("MANIFEST.json", "w"), indent=1, ensure_ascii=False)
print("MANIFEST.json: %d checks, %d not_applicable" % (len(checks), len(na)))
