package gen

import (
	"encoding/hex"
	"fmt"
	"math"
	"strconv"
	"strings"
	"time"

	"pgregory.net/rapid"
)

// Lit is a JSON-serialisable SQL value. Kind: null | default | int | float | str | bytes | time.
type Lit struct {
	Kind string  `json:"k"`
	I    int64   `json:"i,omitempty"`
	F    float64 `json:"f,omitempty"`
	S    string  `json:"s,omitempty"`
	B    []byte  `json:"b,omitempty"`
}

// Arg converts the literal to a database/sql argument.
func (l Lit) Arg() interface{} {
	switch l.Kind {
	case "int":
		return l.I
	case "float":
		return l.F
	case "str":
		return l.S
	case "bytes":
		return append([]byte{}, l.B...)
	case "time":
		t, err := time.Parse(time.RFC3339Nano, l.S)
		if err != nil {
			panic(err)
		}
		return t
	}
	return nil
}

// SQL renders the literal as SQL text.
func (l Lit) SQL() string {
	switch l.Kind {
	case "null":
		return "NULL"
	case "default":
		return "DEFAULT"
	case "int":
		return strconv.FormatInt(l.I, 10)
	case "float":
		if a := math.Abs(l.F); a != 0 && (a < 1e-6 || a >= 1e15) {
			return strconv.FormatFloat(l.F, 'e', -1, 64) // approximate-value literal
		}
		return strconv.FormatFloat(l.F, 'f', -1, 64)
	case "str":
		return "'" + strings.ReplaceAll(l.S, "'", "''") + "'"
	case "bytes":
		return "x'" + hex.EncodeToString(l.B) + "'"
	case "time":
		t, _ := time.Parse(time.RFC3339Nano, l.S)
		return "'" + t.UTC().Format("2006-01-02 15:04:05.000000") + "'"
	}
	return "NULL"
}

// ColSpec is one column of a generated table.
type ColSpec struct {
	Name     string `json:"name"`
	Type     string `json:"type"` // SQL type text, e.g. "VARCHAR(32)"
	Base     string `json:"base"` // INT BIGINT TINYINT SMALLINT VARCHAR CHAR TEXT DECIMAL DOUBLE FLOAT DATETIME DATE VARBINARY BLOB
	Nullable bool   `json:"nullable"`
	Default  *Lit   `json:"default,omitempty"`
	AutoInc  bool   `json:"auto_inc,omitempty"`
}

// TableSpec is one generated table with its initial rows. {T<i>} in statements is replaced by the
// per-case table name.
type TableSpec struct {
	KeyShape string    `json:"key_shape"` // int | bigint-auto | varchar | composite
	Cols     []ColSpec `json:"cols"`
	PK       []string  `json:"pk"`
	Unique   []string  `json:"unique,omitempty"`
	Rows     [][]Lit   `json:"rows"`
	// PKReversed: the PRIMARY KEY clause names the key columns in the reverse of their column order
	// (PRIMARY KEY (k2, k1) on columns k1, k2); PK itself stays in column order
	PKReversed bool `json:"pk_reversed,omitempty"`
	// BigRows: that many further rows (ids from BigBase upwards, other columns at a fixed value per type) are
	// loaded after the listed ones; only for key shape "int". They are what a large statement works on.
	BigRows int `json:"big_rows,omitempty"`
}

// BigBase is the first id of the bulk rows of a table with BigRows.
const BigBase = 20000

func bulkLit(c ColSpec) Lit {
	switch c.Base {
	case "INT", "BIGINT", "TINYINT", "SMALLINT":
		return Lit{Kind: "int", I: 1}
	case "DECIMAL", "DOUBLE", "FLOAT":
		return Lit{Kind: "float", F: 1.5}
	case "DATETIME", "DATE":
		return Lit{Kind: "time", S: "2020-01-01T00:00:00Z"}
	case "VARBINARY", "BLOB":
		return Lit{Kind: "bytes", B: []byte("b")}
	}
	return Lit{Kind: "str", S: "v"}
}

// BigInserts renders the INSERT statements (500 rows each) that load the bulk rows.
func (t TableSpec) BigInserts(name string) []string {
	var out []string
	for lo := 0; lo < t.BigRows; lo += 500 {
		var rows []string
		for i := lo; i < lo+500 && i < t.BigRows; i++ {
			vs := []string{fmt.Sprint(BigBase + i)}
			for _, c := range t.Cols[1:] {
				vs = append(vs, bulkLit(c).SQL())
			}
			rows = append(rows, "("+strings.Join(vs, ", ")+")")
		}
		out = append(out, "INSERT INTO "+name+" VALUES "+strings.Join(rows, ", "))
	}
	return out
}

// BigStmt is a statement over all bulk rows of table ti: update | delete | insert (a multi-row INSERT of n new rows).
func BigStmt(t *rapid.T, tables []TableSpec, ti int, kind string, n int) Stmt {
	tb := tables[ti]
	tn := fmt.Sprintf("{T%d}", ti)
	switch kind {
	case "delete":
		return Stmt{Kind: "delete", Table: ti, SQL: fmt.Sprintf("DELETE FROM %s WHERE id >= %d", tn, BigBase), Where: "range", Classes: []string{"large-statement"}}
	case "insert":
		var rows []string
		for i := 0; i < n; i++ {
			vs := []string{fmt.Sprint(BigBase + 100000 + i)}
			for _, c := range tb.Cols[1:] {
				vs = append(vs, bulkLit(c).SQL())
			}
			rows = append(rows, "("+strings.Join(vs, ", ")+")")
		}
		return Stmt{Kind: "insert", Table: ti, SQL: "INSERT INTO " + tn + " VALUES " + strings.Join(rows, ", "), Classes: []string{"large-statement", "multi-row"}}
	}
	c := tb.Cols[1]
	v := bulkLit(c)
	switch v.Kind {
	case "int":
		v.I = 2
	case "float":
		v.F = 2.5
	case "str":
		v.S = "w"
	case "bytes":
		v.B = []byte("c")
	case "time":
		v.S = strings.Replace(v.S, "2020", "2021", 1)
	}
	return Stmt{Kind: "update", Table: ti, SQL: fmt.Sprintf("UPDATE %s SET %s = %s WHERE id >= %d", tn, Q(c.Name), v.SQL(), BigBase), SetCols: []string{c.Name}, Where: "range", Classes: []string{"large-statement"}}
}

// reservedNames are column names that are reserved words: they are legal only back-quoted.
var reservedNames = map[string]bool{"key": true, "desc": true, "order": true, "group": true}

// Q renders a column name for SQL text: reserved words are back-quoted.
func Q(name string) string {
	if reservedNames[strings.ToLower(name)] {
		return "`" + name + "`"
	}
	return name
}

// DDL renders CREATE TABLE for the given name.
func (t TableSpec) DDL(name string) string {
	var parts []string
	for _, c := range t.Cols {
		s := "`" + c.Name + "` " + c.Type
		if !c.Nullable {
			s += " NOT NULL"
		}
		if c.AutoInc {
			s += " AUTO_INCREMENT"
		}
		if c.Default != nil {
			s += " DEFAULT " + c.Default.SQL()
		}
		parts = append(parts, s)
	}
	pk := make([]string, len(t.PK))
	for i, p := range t.PK {
		if t.PKReversed {
			pk[len(t.PK)-1-i] = "`" + p + "`"
		} else {
			pk[i] = "`" + p + "`"
		}
	}
	parts = append(parts, "PRIMARY KEY ("+strings.Join(pk, ",")+")")
	if len(t.Unique) > 0 {
		u := make([]string, len(t.Unique))
		for i, p := range t.Unique {
			u[i] = "`" + p + "`"
		}
		parts = append(parts, "UNIQUE KEY `uk1` ("+strings.Join(u, ",")+")")
	}
	return "CREATE TABLE " + name + " (" + strings.Join(parts, ", ") + ")"
}

// InsertRows renders the INSERT of the initial rows ("" when there are none).
func (t TableSpec) InsertRows(name string) string {
	if len(t.Rows) == 0 {
		return ""
	}
	var rows []string
	for _, r := range t.Rows {
		vs := make([]string, len(r))
		for i, v := range r {
			vs[i] = v.SQL()
		}
		rows = append(rows, "("+strings.Join(vs, ", ")+")")
	}
	return "INSERT INTO " + name + " VALUES " + strings.Join(rows, ", ")
}

func (t TableSpec) col(name string) *ColSpec {
	for i := range t.Cols {
		if t.Cols[i].Name == name {
			return &t.Cols[i]
		}
	}
	return nil
}

func (t TableSpec) isPK(name string) bool {
	for _, p := range t.PK {
		if p == name {
			return true
		}
	}
	return false
}

// Stmt is one generated statement.
type Stmt struct {
	Kind  string `json:"kind"` // insert | update | delete | upsert | select | select_for_update
	Table int    `json:"table"`
	SQL   string `json:"sql"` // with {T<i>} for table names and ? placeholders
	Args  []Lit  `json:"args,omitempty"`
	// classes for labels / signatures
	SetCols []string `json:"set_cols,omitempty"` // columns assigned by UPDATE / ON DUPLICATE KEY UPDATE
	InsCols []string `json:"ins_cols,omitempty"` // column list of an INSERT ("" list = all columns)
	Where   string   `json:"where,omitempty"`    // shape of the WHERE clause
	Classes []string `json:"classes,omitempty"`  // e.g. string-literal-in-where, key-assignment, multi-row, literal+param mix
}

// Text substitutes table names.
func (s Stmt) Text(names []string) string {
	out := s.SQL
	for i, n := range names {
		out = strings.ReplaceAll(out, fmt.Sprintf("{T%d}", i), n)
	}
	return out
}

// GoArgs returns the bound arguments.
func (s Stmt) GoArgs() []interface{} {
	out := make([]interface{}, len(s.Args))
	for i, a := range s.Args {
		out[i] = a.Arg()
	}
	return out
}

// HasClass reports whether the statement carries a class label.
func (s Stmt) HasClass(c string) bool {
	for _, x := range s.Classes {
		if x == c {
			return true
		}
	}
	return false
}

// ---- value generation ------------------------------------------------------------------------

var (
	strPool  = []string{"", "a", "test", "MTIz", "abcd", "123", "{\"a\":1}", "héllo", "中文", "it's", "x y", "NULL", "Seata"}
	timePool = []string{"2024-02-29T12:34:56Z", "2001-01-01T00:00:00Z", "2024-06-01T08:00:00.123456Z", "1999-12-31T23:59:59Z", "2030-05-05T05:05:05.5Z"}
)

// Excluded counts, per option name, how often an exclusion option overrode a drawn choice
// (reported as excluded_by_known_finding in the evidence).
var Excluded = map[string]int{}

// AllowString restricts generated strings (properties set it to avoid classes excluded by a known finding).
var AllowString = func(s string) bool { return true }

func drawValueFor(t *rapid.T, c ColSpec, label string) Lit {
	if c.Nullable && rapid.IntRange(0, 6).Draw(t, label+".null") == 0 {
		return Lit{Kind: "null"}
	}
	switch c.Base {
	case "TINYINT":
		return Lit{Kind: "int", I: rapid.OneOf(rapid.SampledFrom([]int64{0, 1, -1, 127, -128}), rapid.Int64Range(-128, 127)).Draw(t, label)}
	case "SMALLINT":
		return Lit{Kind: "int", I: rapid.OneOf(rapid.SampledFrom([]int64{0, 1, -1, 32767, -32768}), rapid.Int64Range(-32768, 32767)).Draw(t, label)}
	case "INT":
		return Lit{Kind: "int", I: rapid.OneOf(rapid.SampledFrom([]int64{0, 1, -1, 2147483647, -2147483648, 100, 7}), rapid.Int64Range(-1000, 1000)).Draw(t, label)}
	case "BIGINT":
		return Lit{Kind: "int", I: rapid.OneOf(rapid.SampledFrom([]int64{0, 1, -1, 1 << 53, 1<<53 + 1, 1<<62 + 12345, 1<<63 - 1, -1 << 63}), rapid.Int64Range(-1000, 1000)).Draw(t, label)}
	case "DECIMAL":
		return Lit{Kind: "float", F: float64(rapid.Int64Range(-100000, 100000).Draw(t, label)) / 100}
	case "DOUBLE":
		return Lit{Kind: "float", F: 0 + rapid.OneOf(rapid.SampledFrom([]float64{0, 1.5, -2.25, 0.1, 1e15, 1e-7}), rapid.Float64Range(-1e6, 1e6)).Draw(t, label)}
	case "FLOAT":
		return Lit{Kind: "float", F: 0 + float64(float32(rapid.OneOf(rapid.SampledFrom([]float64{0, 1.5, -2.25, 0.1}), rapid.Float64Range(-1e4, 1e4)).Draw(t, label)))}
	case "DATETIME":
		return Lit{Kind: "time", S: rapid.SampledFrom(timePool).Draw(t, label)}
	case "DATE":
		ts := rapid.SampledFrom(timePool).Draw(t, label)
		return Lit{Kind: "time", S: ts[:10] + "T00:00:00Z"}
	case "VARBINARY", "BLOB":
		return Lit{Kind: "bytes", B: rapid.OneOf(rapid.SampledFrom([][]byte{{}, {0}, {0, 255, 1}, []byte("bin")}), rapid.SliceOfN(rapid.Byte(), 0, 8)).Draw(t, label)}
	default: // VARCHAR CHAR TEXT
		s := rapid.OneOf(rapid.SampledFrom(strPool), rapid.StringMatching(`[a-zA-Z0-9 ]{0,10}`)).Draw(t, label)
		if !AllowString(s) {
			s = "v"
		}
		if c.Base == "CHAR" {
			s = strings.TrimRight(s, " ") // CHAR strips trailing spaces on retrieval
		}
		return Lit{Kind: "str", S: s}
	}
}

var nonKeyTypes = []ColSpec{
	{Type: "INT", Base: "INT"}, {Type: "BIGINT", Base: "BIGINT"}, {Type: "TINYINT", Base: "TINYINT"}, {Type: "SMALLINT", Base: "SMALLINT"},
	{Type: "VARCHAR(32)", Base: "VARCHAR"}, {Type: "VARCHAR(32)", Base: "VARCHAR"}, {Type: "CHAR(12)", Base: "CHAR"}, {Type: "TEXT", Base: "TEXT"},
	{Type: "DECIMAL(10,2)", Base: "DECIMAL"}, {Type: "DOUBLE", Base: "DOUBLE"}, {Type: "FLOAT", Base: "FLOAT"},
	{Type: "DATETIME(6)", Base: "DATETIME"}, {Type: "DATE", Base: "DATE"}, {Type: "VARBINARY(16)", Base: "VARBINARY"}, {Type: "BLOB", Base: "BLOB"},
}

// ColumnBases restricts the non-key column types (nil = all).
var ColumnBases map[string]bool

// DrawTable draws a table with 0–6 initial rows.
func DrawTable(t *rapid.T, idx int) TableSpec {
	tb := TableSpec{KeyShape: rapid.SampledFrom([]string{"int", "int", "bigint-auto", "varchar", "composite"}).Draw(t, "keyShape")}
	switch tb.KeyShape {
	case "int":
		tb.Cols = append(tb.Cols, ColSpec{Name: "id", Type: "INT", Base: "INT"})
		tb.PK = []string{"id"}
	case "bigint-auto":
		tb.Cols = append(tb.Cols, ColSpec{Name: "id", Type: "BIGINT", Base: "BIGINT", AutoInc: true})
		tb.PK = []string{"id"}
	case "varchar":
		tb.Cols = append(tb.Cols, ColSpec{Name: "code", Type: "VARCHAR(24)", Base: "VARCHAR"})
		tb.PK = []string{"code"}
	default:
		tb.Cols = append(tb.Cols, ColSpec{Name: "k1", Type: "INT", Base: "INT"}, ColSpec{Name: "k2", Type: "VARCHAR(16)", Base: "VARCHAR"})
		tb.PK = []string{"k1", "k2"}
		tb.PKReversed = rapid.IntRange(0, 2).Draw(t, "pkReversed") == 0
	}
	n := rapid.IntRange(1, 4).Draw(t, "nCols")
	var pool []ColSpec
	for _, c := range nonKeyTypes {
		if ColumnBases == nil || ColumnBases[c.Base] {
			pool = append(pool, c)
		}
	}
	for i := 0; i < n; i++ {
		c := rapid.SampledFrom(pool).Draw(t, "colType")
		c.Name = fmt.Sprintf("c%d", i)
		if i >= 1 && rapid.IntRange(0, 5).Draw(t, "reservedName") == 0 {
			// a reserved word as column name (legal when back-quoted): one of each per table at most
			c.Name = []string{"key", "desc", "order", "group"}[i%4]
		}
		c.Nullable = rapid.IntRange(0, 2).Draw(t, "nullable") > 0
		if rapid.IntRange(0, 3).Draw(t, "hasDefault") == 0 && c.Base != "TEXT" && c.Base != "BLOB" {
			cc := c
			cc.Nullable = false
			d := drawValueFor(t, cc, "default")
			c.Default = &d
		}
		tb.Cols = append(tb.Cols, c)
	}
	if rapid.IntRange(0, 5).Draw(t, "unique") == 0 {
		for _, c := range tb.Cols[len(tb.PK):] {
			if c.Base == "INT" || c.Base == "VARCHAR" {
				tb.Unique = []string{c.Name}
				break
			}
		}
	}
	nr := rapid.IntRange(0, 6).Draw(t, "nRows")
	// key value pools: plain ones, and ones that look like other parts of a lock key or of a joined key
	// (a colon as in table:key; digit strings that concatenate to the same text: 1+"23" and 12+"3")
	awkward := rapid.IntRange(0, 3).Draw(t, "awkwardKeys") == 0 || (tb.KeyShape == "composite" && rapid.Bool().Draw(t, "awkwardComposite"))
	seenKey := map[string]bool{}
	seenUk := map[string]bool{}
	for i := 0; i < nr; i++ {
		row := make([]Lit, len(tb.Cols))
		for j, c := range tb.Cols {
			row[j] = drawValueFor(t, c, fmt.Sprintf("r%d.%s", i, c.Name))
		}
		// keys: small distinct values so that statements can hit them
		switch tb.KeyShape {
		case "int", "bigint-auto":
			row[0] = Lit{Kind: "int", I: int64(i + 1)}
			if tb.KeyShape == "int" && i == nr-1 && rapid.Bool().Draw(t, "bigKey") {
				row[0] = Lit{Kind: "int", I: 2147483000 + int64(i)}
			}
			if tb.KeyShape == "bigint-auto" && i == nr-1 && rapid.Bool().Draw(t, "hugeKey") {
				row[0] = Lit{Kind: "int", I: 1<<60 + int64(i)} // snowflake-like
			}
		case "varchar":
			row[0] = Lit{Kind: "str", S: []string{"k1", "K2", "test", "abcd", "a b", "z9"}[i]}
			if awkward {
				row[0] = Lit{Kind: "str", S: []string{"k1", "c:", "test", "x:y", "a b", "z9"}[i]}
			}
		default:
			row[0] = Lit{Kind: "int", I: int64(i/2 + 1)}
			row[1] = Lit{Kind: "str", S: []string{"x", "y"}[i%2]}
			if awkward {
				row[0] = Lit{Kind: "int", I: []int64{1, 12, 1, 12, 2, 2}[i]}
				row[1] = Lit{Kind: "str", S: []string{"23", "3", "3", "33", "x", "y"}[i]}
			}
		}
		key := ""
		for j := range tb.PK {
			key += strings.ToLower(row[j].SQL()) + "|"
		}
		if seenKey[key] {
			continue
		}
		if len(tb.Unique) > 0 {
			for j, c := range tb.Cols {
				if c.Name == tb.Unique[0] && row[j].Kind != "null" {
					uk := strings.ToLower(row[j].SQL())
					if seenUk[uk] {
						row[j] = Lit{Kind: "null"}
						if !c.Nullable {
							key = ""
						}
					}
					seenUk[uk] = true
				}
			}
		}
		if key == "" {
			continue
		}
		seenKey[key] = true
		tb.Rows = append(tb.Rows, row)
	}
	return tb
}

// ---- statements ------------------------------------------------------------------------------

type sqlBuilder struct {
	insCols []string
	setCols []string
	t       *rapid.T
	sb      strings.Builder
	args    []Lit
	classes map[string]bool
	// ParamBias: probability (in tenths) that a value becomes a bound parameter
	paramTenths       int
	forceParamStrings bool
}

func (b *sqlBuilder) val(v Lit, where bool) {
	if v.Kind == "null" || v.Kind == "default" {
		b.sb.WriteString(v.SQL())
		return
	}
	asParam := rapid.IntRange(0, 9).Draw(b.t, "param?") < b.paramTenths
	if where && (v.Kind == "str" || v.Kind == "time") && b.forceParamStrings {
		asParam = true
	}
	if asParam {
		b.sb.WriteString("?")
		b.args = append(b.args, v)
		if where {
			b.classes["param-in-where"] = true
		} else {
			b.classes["param-in-set-or-values"] = true
		}
		return
	}
	b.sb.WriteString(v.SQL())
	if where && (v.Kind == "str" || v.Kind == "time") {
		b.classes["string-literal-in-where"] = true
	}
	if where && v.Kind == "bytes" {
		b.classes["binary-literal-in-where"] = true
	}
}

func (b *sqlBuilder) existingKey(tb TableSpec, label string) []Lit {
	if len(tb.Rows) == 0 || rapid.IntRange(0, 5).Draw(b.t, label+".miss") == 0 {
		// a key that matches nothing
		out := make([]Lit, len(tb.PK))
		for i, p := range tb.PK {
			c := tb.col(p)
			if c.Base == "VARCHAR" {
				out[i] = Lit{Kind: "str", S: "nokey"}
			} else {
				out[i] = Lit{Kind: "int", I: 9000 + int64(rapid.IntRange(0, 9).Draw(b.t, label+".n"))}
			}
		}
		return out
	}
	r := tb.Rows[rapid.IntRange(0, len(tb.Rows)-1).Draw(b.t, label+".row")]
	return r[:len(tb.PK)]
}

// usable reports whether a column may be referenced in a SET list or a WHERE clause: while the image queries
// restore such expressions without back quotes (known finding C16-K2: same restore flags), reserved-word
// columns are kept out of them; they still occur in tables, INSERT column lists and images.
func (b *sqlBuilder) usable(c ColSpec) bool {
	if b.forceParamStrings && reservedNames[strings.ToLower(c.Name)] {
		Excluded["ReservedNameInExpr"]++
		return false
	}
	return true
}

func (b *sqlBuilder) usableCols(cols []ColSpec) []ColSpec {
	var out []ColSpec
	for _, c := range cols {
		if !b.forceParamStrings || !reservedNames[strings.ToLower(c.Name)] {
			out = append(out, c)
		}
	}
	if len(out) != len(cols) {
		Excluded["ReservedNameInExpr"]++
	}
	if len(out) == 0 {
		return cols
	}
	return out
}

// cond writes a condition; shape is appended to *shape.
func (b *sqlBuilder) cond(tb TableSpec, depth int, shape *[]string) {
	kind := rapid.SampledFrom([]string{"pk-eq", "pk-eq", "pk-eq", "pk-in", "cmp", "between", "and", "or", "paren", "like", "isnull"}).Draw(b.t, "cond")
	if depth <= 0 && (kind == "and" || kind == "or" || kind == "paren") {
		kind = "pk-eq"
	}
	*shape = append(*shape, kind)
	switch kind {
	case "pk-eq":
		key := b.existingKey(tb, "pkeq")
		for i, p := range tb.PK {
			if i > 0 {
				b.sb.WriteString(" AND ")
			}
			b.sb.WriteString(p + " = ")
			b.val(key[i], true)
		}
	case "pk-in":
		p := tb.PK[0]
		n := rapid.IntRange(1, 3).Draw(b.t, "inN")
		b.sb.WriteString(p + " IN (")
		for i := 0; i < n; i++ {
			if i > 0 {
				b.sb.WriteString(", ")
			}
			b.val(b.existingKey(tb, "in")[0], true)
		}
		b.sb.WriteString(")")
	case "cmp":
		c := tb.Cols[rapid.IntRange(0, len(tb.Cols)-1).Draw(b.t, "cmpCol")]
		if c.Base == "BLOB" || c.Base == "TEXT" || c.Base == "VARBINARY" || !b.usable(c) {
			c = tb.Cols[0]
		}
		op := rapid.SampledFrom([]string{"=", "<>", "<", "<=", ">", ">="}).Draw(b.t, "op")
		b.sb.WriteString(Q(c.Name) + " " + op + " ")
		cc := c
		cc.Nullable = false
		b.val(b.columnValue(tb, cc), true)
	case "between":
		c := tb.Cols[0]
		if c.Base == "VARCHAR" {
			b.sb.WriteString(Q(c.Name) + " BETWEEN ")
			b.val(Lit{Kind: "str", S: "a"}, true)
			b.sb.WriteString(" AND ")
			b.val(Lit{Kind: "str", S: "l"}, true)
		} else {
			lo := int64(rapid.IntRange(0, 4).Draw(b.t, "lo"))
			b.sb.WriteString(Q(c.Name) + " BETWEEN ")
			b.val(Lit{Kind: "int", I: lo}, true)
			b.sb.WriteString(" AND ")
			b.val(Lit{Kind: "int", I: lo + int64(rapid.IntRange(0, 3).Draw(b.t, "span"))}, true)
		}
	case "and", "or":
		b.cond(tb, depth-1, shape)
		b.sb.WriteString(map[string]string{"and": " AND ", "or": " OR "}[kind])
		b.cond(tb, depth-1, shape)
	case "paren":
		b.sb.WriteString("(")
		b.cond(tb, depth-1, shape)
		b.sb.WriteString(")")
	case "like":
		var sc *ColSpec
		for i := range tb.Cols {
			if (tb.Cols[i].Base == "VARCHAR" || tb.Cols[i].Base == "CHAR") && b.usable(tb.Cols[i]) {
				sc = &tb.Cols[i]
			}
		}
		if sc == nil {
			b.sb.WriteString(tb.PK[0] + " = ")
			b.val(b.existingKey(tb, "likefallback")[0], true)
			return
		}
		b.sb.WriteString(Q(sc.Name) + " LIKE ")
		b.val(Lit{Kind: "str", S: rapid.SampledFrom([]string{"%", "a%", "%t", "k_", "t%"}).Draw(b.t, "pat")}, true)
	case "isnull":
		c := tb.Cols[rapid.IntRange(0, len(tb.Cols)-1).Draw(b.t, "nullCol")]
		if !b.usable(c) {
			c = tb.Cols[0]
		}
		b.sb.WriteString(Q(c.Name) + " IS ")
		if rapid.Bool().Draw(b.t, "not") {
			b.sb.WriteString("NOT ")
		}
		b.sb.WriteString("NULL")
	}
}

// columnValue draws a value for c, preferring values present in the initial rows.
func (b *sqlBuilder) columnValue(tb TableSpec, c ColSpec) Lit {
	if len(tb.Rows) > 0 && rapid.IntRange(0, 2).Draw(b.t, "fromRows") > 0 {
		for j, x := range tb.Cols {
			if x.Name == c.Name {
				v := tb.Rows[rapid.IntRange(0, len(tb.Rows)-1).Draw(b.t, "rowPick")][j]
				if v.Kind != "null" || c.Nullable {
					return v
				}
			}
		}
	}
	return drawValueFor(b.t, c, "val."+c.Name)
}

// StmtOptions tune the statement generator.
type StmtOptions struct {
	Kinds                  []string // allowed kinds; nil = insert update delete upsert
	ParamTenths            int      // 0..10 probability that a value is a bound parameter (default 6)
	ForceParamStrings      bool     // strings/times in WHERE are always parameters
	NoKeyAssignment        bool
	NoOrderLimit           bool
	NoMultiRowInsert       bool
	NoNullAutoKey          bool
	NoOmittedAutoKey       bool
	NoOmittedAutoKeyUpsert bool // upserts always name the auto-increment key (AT refuses an upsert without key or unique value by design)
	NoUpsertOnUnique       bool // no INSERT..ON DUPLICATE KEY UPDATE on tables with a secondary unique index
}

// DrawStmt draws one DML statement against table ti.
func DrawStmt(t *rapid.T, tables []TableSpec, opt StmtOptions) Stmt {
	ti := rapid.IntRange(0, len(tables)-1).Draw(t, "table")
	tb := tables[ti]
	kinds := opt.Kinds
	if kinds == nil {
		kinds = []string{"insert", "update", "update", "delete", "upsert"}
	}
	kind := rapid.SampledFrom(kinds).Draw(t, "stmtKind")
	if kind == "upsert" && opt.NoUpsertOnUnique && len(tb.Unique) > 0 {
		kind = "update"
		Excluded["NoUpsertOnUnique"]++
	}
	pt := opt.ParamTenths
	if pt == 0 {
		pt = 6
	}
	b := &sqlBuilder{t: t, classes: map[string]bool{}, paramTenths: pt, forceParamStrings: opt.ForceParamStrings}
	tn := fmt.Sprintf("{T%d}", ti)
	var shape []string
	orderLimit := func() {
		if opt.NoOrderLimit {
			return
		}
		if rapid.IntRange(0, 4).Draw(t, "order?") == 0 {
			b.sb.WriteString(" ORDER BY " + tb.PK[0])
			if rapid.Bool().Draw(t, "desc") {
				b.sb.WriteString(" DESC")
			}
			b.classes["order-by"] = true
			if rapid.Bool().Draw(t, "limit?") {
				b.sb.WriteString(" LIMIT ")
				b.val(Lit{Kind: "int", I: int64(rapid.IntRange(1, 3).Draw(t, "limit"))}, true)
				b.classes["limit"] = true
			}
		}
	}
	switch kind {
	case "insert", "upsert":
		withCols := rapid.IntRange(0, 3).Draw(t, "withCols") > 0 || kind == "upsert"
		cols := tb.Cols
		omitKey := false
		if withCols && tb.KeyShape == "bigint-auto" && !opt.NoOmittedAutoKey && !(opt.NoOmittedAutoKeyUpsert && kind == "upsert") && rapid.Bool().Draw(t, "omitKey") {
			cols = tb.Cols[1:]
			omitKey = true
			b.classes["auto-inc-omitted"] = true
		}
		if withCols && len(cols) > len(tb.PK)+1 && rapid.IntRange(0, 3).Draw(t, "dropCol") == 0 {
			// omit a trailing column that has a default or is nullable
			last := cols[len(cols)-1]
			if last.Nullable || last.Default != nil {
				cols = cols[:len(cols)-1]
				b.classes["column-omitted"] = true
			}
		}
		b.sb.WriteString("INSERT INTO " + tn)
		if withCols {
			names := make([]string, len(cols))
			quoted := make([]string, len(cols))
			for i, c := range cols {
				names[i] = c.Name
				quoted[i] = Q(c.Name)
			}
			b.sb.WriteString(" (" + strings.Join(quoted, ", ") + ")")
			b.insCols = names
		}
		b.sb.WriteString(" VALUES ")
		nr := 1
		if kind == "insert" {
			nr = rapid.SampledFrom([]int{1, 1, 1, 2, 3}).Draw(t, "nRows")
			if opt.NoMultiRowInsert && nr > 1 {
				nr = 1
				Excluded["NoMultiRowInsert"]++
			}
		}
		if nr > 1 {
			b.classes["multi-row"] = true
		}
		for r := 0; r < nr; r++ {
			if r > 0 {
				b.sb.WriteString(", ")
			}
			b.sb.WriteString("(")
			for i, c := range cols {
				if i > 0 {
					b.sb.WriteString(", ")
				}
				var v Lit
				switch {
				case tb.isPK(c.Name) && !omitKey:
					if kind == "upsert" {
						// hit or miss an existing key
						key := b.existingKey(tb, "upkey")
						for j, p := range tb.PK {
							if p == c.Name {
								v = key[j]
							}
						}
						if rapid.IntRange(0, 2).Draw(t, "upMiss") == 0 {
							v = b.freshKey(tb, c, r)
						}
					} else if c.AutoInc && rapid.IntRange(0, 3).Draw(t, "nullKey") == 0 {
						if opt.NoNullAutoKey {
							Excluded["NoNullAutoKey"]++
							v = b.freshKey(tb, c, r)
						} else {
							v = Lit{Kind: "null"}
							b.classes["auto-inc-null"] = true
						}
					} else if rapid.IntRange(0, 7).Draw(t, "dupKey") == 0 && len(tb.Rows) > 0 {
						key := b.existingKey(tb, "dupkey")
						for j, p := range tb.PK {
							if p == c.Name {
								v = key[j]
							}
						}
						b.classes["maybe-duplicate-key"] = true
					} else {
						v = b.freshKey(tb, c, r)
					}
				case c.Default != nil && rapid.IntRange(0, 4).Draw(t, "useDefault") == 0:
					v = Lit{Kind: "default"}
					b.classes["default-keyword"] = true
				default:
					v = drawValueFor(t, c, "ins."+c.Name)
				}
				if v.Kind == "null" {
					b.classes["null-in-values"] = true
				}
				b.val(v, false)
			}
			b.sb.WriteString(")")
		}
		if kind == "upsert" {
			b.sb.WriteString(" ON DUPLICATE KEY UPDATE ")
			nonKey := b.usableCols(tb.Cols[len(tb.PK):])
			n := rapid.IntRange(1, min(2, len(nonKey))).Draw(t, "upN")
			for i := 0; i < n; i++ {
				if i > 0 {
					b.sb.WriteString(", ")
				}
				c := nonKey[(i+rapid.IntRange(0, len(nonKey)-1).Draw(t, "upCol"))%len(nonKey)]
				b.setCols = append(b.setCols, c.Name)
				b.sb.WriteString(Q(c.Name) + " = ")
				switch rapid.IntRange(0, 2).Draw(t, "upExpr") {
				case 0:
					b.sb.WriteString("VALUES(" + Q(c.Name) + ")")
				case 1:
					if c.Base == "INT" || c.Base == "BIGINT" || c.Base == "SMALLINT" {
						b.sb.WriteString(Q(c.Name) + " + 1")
						break
					}
					fallthrough
				default:
					cc := c
					b.val(drawValueFor(t, cc, "up."+c.Name), false)
				}
			}
		}
	case "update":
		b.sb.WriteString("UPDATE " + tn + " SET ")
		nonKey := b.usableCols(tb.Cols[len(tb.PK):])
		if len(tb.Rows) > 0 && rapid.IntRange(0, 9).Draw(t, "nearEqual") == 0 {
			// a change that leaves the value "almost" what it was: only the letter case differs, or a trailing
			// blank is added (values that compare equal under MySQL's default collations but are different data)
			ri := rapid.IntRange(0, len(tb.Rows)-1).Draw(t, "nearRow")
			for j, c := range tb.Cols {
				if j >= len(tb.PK) && c.Base == "DATETIME" && tb.Rows[ri][j].Kind == "time" && b.usable(c) {
					// … or only the fraction of a second changes
					if tm, err := time.Parse(time.RFC3339Nano, tb.Rows[ri][j].S); err == nil && tm.Nanosecond() < 500000000 {
						b.setCols = append(b.setCols, c.Name)
						b.sb.WriteString(Q(c.Name) + " = ")
						b.val(Lit{Kind: "time", S: tm.Add(123456 * time.Microsecond).Format(time.RFC3339Nano)}, false)
						b.sb.WriteString(" WHERE ")
						for k, pk := range tb.PK {
							if k > 0 {
								b.sb.WriteString(" AND ")
							}
							b.sb.WriteString(pk + " = ")
							b.val(tb.Rows[ri][k], true)
						}
						b.classes["near-equal-set"] = true
						shape = append(shape, "pk-eq")
						nonKey = nil
						break
					}
				}
				if j < len(tb.PK) || (c.Base != "VARCHAR" && c.Base != "TEXT") || tb.Rows[ri][j].Kind != "str" || !b.usable(c) {
					continue
				}
				old := tb.Rows[ri][j].S
				flipped := strings.Map(func(r rune) rune {
					switch {
					case r >= 'a' && r <= 'z':
						return r - 32
					case r >= 'A' && r <= 'Z':
						return r + 32
					}
					return r
				}, old)
				if flipped == old || rapid.IntRange(0, 3).Draw(t, "nearBlank") == 0 {
					flipped = old + " "
				}
				if len(flipped) > 16 {
					continue
				}
				b.setCols = append(b.setCols, c.Name)
				b.sb.WriteString(Q(c.Name) + " = ")
				b.val(Lit{Kind: "str", S: flipped}, false)
				b.sb.WriteString(" WHERE ")
				for k, pk := range tb.PK {
					if k > 0 {
						b.sb.WriteString(" AND ")
					}
					b.sb.WriteString(pk + " = ")
					b.val(tb.Rows[ri][k], true)
				}
				b.classes["near-equal-set"] = true
				shape = append(shape, "pk-eq")
				nonKey = nil
				break
			}
		}
		if nonKey == nil {
			break
		}
		n := rapid.IntRange(1, min(3, len(nonKey))).Draw(t, "setN")
		used := map[string]bool{}
		first := true
		for i := 0; i < n; i++ {
			c := nonKey[rapid.IntRange(0, len(nonKey)-1).Draw(t, "setCol")]
			if used[c.Name] {
				continue
			}
			used[c.Name] = true
			if !first {
				b.sb.WriteString(", ")
			}
			first = false
			b.setCols = append(b.setCols, c.Name)
			b.sb.WriteString(Q(c.Name) + " = ")
			if (c.Base == "INT" || c.Base == "BIGINT" || c.Base == "DECIMAL" || c.Base == "DOUBLE") && rapid.IntRange(0, 2).Draw(t, "arith") == 0 {
				b.sb.WriteString(Q(c.Name) + rapid.SampledFrom([]string{" + 1", " - 1", " + 10"}).Draw(t, "arithOp"))
				b.classes["arithmetic-set"] = true
			} else {
				b.val(drawValueFor(t, c, "set."+c.Name), false)
			}
		}
		if !opt.NoKeyAssignment && rapid.IntRange(0, 11).Draw(t, "keyAssign") == 0 {
			c := tb.col(tb.PK[0])
			b.sb.WriteString(", " + Q(c.Name) + " = ")
			b.setCols = append(b.setCols, c.Name)
			b.val(b.freshKey(tb, *c, 7), false)
			b.classes["key-assignment"] = true
		}
		b.sb.WriteString(" WHERE ")
		b.cond(tb, 2, &shape)
		orderLimit()
	case "delete":
		b.sb.WriteString("DELETE FROM " + tn + " WHERE ")
		b.cond(tb, 2, &shape)
		orderLimit()
	case "select", "select_for_update":
		b.sb.WriteString("SELECT * FROM " + tn + " WHERE ")
		b.cond(tb, 2, &shape)
		if kind == "select_for_update" {
			b.sb.WriteString(" FOR UPDATE")
		}
	}
	st := Stmt{Kind: kind, Table: ti, SQL: b.sb.String(), Args: b.args, Where: strings.Join(shape, ","), SetCols: b.setCols, InsCols: b.insCols}
	for c := range b.classes {
		st.Classes = append(st.Classes, c)
	}
	sortStrings(st.Classes)
	return st
}

// dupInsert builds an INSERT of a key that already exists (rejected with error 1062).
func dupInsert(t *rapid.T, tables []TableSpec) *Stmt {
	for ti, tb := range tables {
		if len(tb.Rows) == 0 {
			continue
		}
		row := tb.Rows[rapid.IntRange(0, len(tb.Rows)-1).Draw(t, "dupRow")]
		var cols, qcols, vals []string
		var args []Lit
		for j, c := range tb.Cols {
			if row[j].Kind == "default" {
				continue
			}
			cols = append(cols, c.Name)
			qcols = append(qcols, Q(c.Name))
			if j < len(tb.PK) || row[j].Kind == "null" {
				vals = append(vals, row[j].SQL())
			} else {
				vals = append(vals, "?")
				args = append(args, row[j])
			}
		}
		return &Stmt{Kind: "insert", Table: ti, SQL: fmt.Sprintf("INSERT INTO {T%d} (%s) VALUES (%s)", ti, strings.Join(qcols, ", "), strings.Join(vals, ", ")), Args: args, InsCols: cols, Classes: []string{"duplicate-key"}}
	}
	return nil
}

// IntegerOnly reports whether every column of every table is a small integer type (INT, SMALLINT, TINYINT):
// the value kinds the protobuf undo-log serializer carries faithfully (its loss of the others is known
// finding C08-K1).
func IntegerOnly(tables []TableSpec) bool {
	for _, tb := range tables {
		for _, c := range tb.Cols {
			if c.Base != "INT" && c.Base != "SMALLINT" && c.Base != "TINYINT" {
				return false
			}
		}
	}
	return true
}

// FailingUpdate builds an UPDATE of an existing row that the database rejects after the row was found: it
// assigns NULL to a NOT NULL column (error 1048). nil when no table has such a column and a row.
func FailingUpdate(t *rapid.T, tables []TableSpec) *Stmt {
	for ti, tb := range tables {
		if len(tb.Rows) == 0 {
			continue
		}
		for j, c := range tb.Cols {
			if j < len(tb.PK) || c.Nullable || reservedNames[strings.ToLower(c.Name)] {
				continue
			}
			row := tb.Rows[rapid.IntRange(0, len(tb.Rows)-1).Draw(t, "failRow")]
			var conds []string
			for k, pk := range tb.PK {
				conds = append(conds, pk+" = "+row[k].SQL())
			}
			return &Stmt{Kind: "update", Table: ti, SQL: fmt.Sprintf("UPDATE {T%d} SET %s = NULL WHERE %s", ti, c.Name, strings.Join(conds, " AND ")), SetCols: []string{c.Name}, Where: "pk-eq", Classes: []string{"rejected-update"}}
		}
	}
	return nil
}

// DupInsert is dupInsert for other packages.
func DupInsert(t *rapid.T, tables []TableSpec) *Stmt { return dupInsert(t, tables) }

func (b *sqlBuilder) freshKey(tb TableSpec, c ColSpec, r int) Lit {
	n := int64(100 + r + 10*rapid.IntRange(0, 9).Draw(b.t, "fresh"))
	if c.Base != "VARCHAR" && !c.AutoInc && r == 0 && rapid.IntRange(0, 19).Draw(b.t, "zeroKey") == 7 {
		n = 0 // a key value of zero is an ordinary value for a key that is not AUTO_INCREMENT
	}
	if c.Base == "VARCHAR" {
		return Lit{Kind: "str", S: fmt.Sprintf("n%d", n)}
	}
	return Lit{Kind: "int", I: n}
}

func min(a, b int) int {
	if a < b {
		return a
	}
	return b
}

func sortStrings(s []string) {
	for i := 1; i < len(s); i++ {
		for j := i; j > 0 && s[j] < s[j-1]; j-- {
			s[j], s[j-1] = s[j-1], s[j]
		}
	}
}

// Branch is one local transaction of a scenario.
type Branch struct {
	Mode     string `json:"mode"`     // auto (autocommit statements) | tx (explicit BeginTx … Commit) | mixed (pinned conn: all but the last statement in an explicit transaction, the last in autocommit)
	Via      string `json:"via"`      // db | conn (pinned *sql.Conn)
	Prepared bool   `json:"prepared"` // use PrepareContext + stmt.ExecContext
	Stmts    []Stmt `json:"stmts"`
	// KeepGoing: in an explicit transaction the caller ignores a failed statement and commits the rest
	KeepGoing bool `json:"keep_going,omitempty"`
}

// Config is the undo configuration of a scenario.
type Config struct {
	Serializer string `json:"serializer"`
	Compress   string `json:"compress"`
	Validation bool   `json:"data_validation"`
	OnlyUpdate bool   `json:"only_care_update_columns"`
}

// Scenario is a generated AT program.
type Scenario struct {
	Tables   []TableSpec `json:"tables"`
	Branches []Branch    `json:"branches"`
	Config   Config      `json:"config"`
}

// ScenarioOptions tune DrawScenario.
type ScenarioOptions struct {
	NoPrepared  bool
	SingleAuto  bool // autocommit branches have exactly one statement
	MaxTables   int
	MaxBranches int
	MaxStmts    int
	Stmt        StmtOptions
	Serializers []string
	Compress    []string
}

func DrawConfig(t *rapid.T, o ScenarioOptions) Config {
	ser := o.Serializers
	if ser == nil {
		ser = []string{"json"}
	}
	cmp := o.Compress
	if cmp == nil {
		cmp = []string{"None", "None", "Gzip", "Zip", "Bzip2", "Lz4", "Deflate", "Zstd", "zip", ""}
	}
	return Config{Serializer: rapid.SampledFrom(ser).Draw(t, "serializer"), Compress: rapid.SampledFrom(cmp).Draw(t, "compress"),
		Validation: rapid.Bool().Draw(t, "validation"), OnlyUpdate: rapid.Bool().Draw(t, "onlyUpdate")}
}

// DrawScenario draws tables, branches and configuration.
func DrawScenario(t *rapid.T, o ScenarioOptions) Scenario {
	if o.MaxTables == 0 {
		o.MaxTables = 2
	}
	if o.MaxBranches == 0 {
		o.MaxBranches = 3
	}
	if o.MaxStmts == 0 {
		o.MaxStmts = 3
	}
	var sc Scenario
	nt := rapid.IntRange(1, o.MaxTables).Draw(t, "nTables")
	for i := 0; i < nt; i++ {
		sc.Tables = append(sc.Tables, DrawTable(t, i))
	}
	nb := rapid.IntRange(1, o.MaxBranches).Draw(t, "nBranches")
	for i := 0; i < nb; i++ {
		br := Branch{Mode: rapid.SampledFrom([]string{"auto", "auto", "tx"}).Draw(t, "mode"), Via: rapid.SampledFrom([]string{"db", "db", "conn"}).Draw(t, "via"),
			Prepared: rapid.IntRange(0, 3).Draw(t, "prepared") == 0}
		if br.Prepared && o.NoPrepared {
			br.Prepared = false
			Excluded["NoPrepared"]++
		}
		ns := 1
		if br.Mode == "tx" {
			ns = rapid.IntRange(1, o.MaxStmts).Draw(t, "nStmts")
		} else if br.Via == "conn" && !o.SingleAuto {
			// a session: consecutive autocommit statements (each its own local transaction) on one
			// pinned connection, optionally preceded by an explicit transaction on that connection
			ns = rapid.IntRange(1, o.MaxStmts).Draw(t, "nStmts")
			if ns >= 2 && rapid.IntRange(0, 2).Draw(t, "mixed") == 0 {
				br.Mode = "mixed"
			}
		}
		for j := 0; j < ns; j++ {
			br.Stmts = append(br.Stmts, DrawStmt(t, sc.Tables, o.Stmt))
		}
		if br.Mode == "tx" && ns >= 2 && rapid.IntRange(0, 3).Draw(t, "keepGoing") == 0 {
			// a statement the database rejects (duplicate key) in the middle of a transaction that goes on
			br.KeepGoing = true
			dup := dupInsert(t, sc.Tables)
			if dup != nil {
				k := rapid.IntRange(0, len(br.Stmts)-1).Draw(t, "dupAt")
				br.Stmts = append(br.Stmts[:k], append([]Stmt{*dup}, br.Stmts[k:]...)...)
			}
		}
		sc.Branches = append(sc.Branches, br)
	}
	sc.Config = DrawConfig(t, o)
	return sc
}
