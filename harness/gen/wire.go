// Package gen holds generators shared by several properties.
package gen

import (
	"strings"
	"time"

	"pgregory.net/rapid"

	"seata.apache.org/seata-go/pkg/protocol/branch"
	"seata.apache.org/seata-go/pkg/protocol/message"
	serror "seata.apache.org/seata-go/pkg/util/errors"
)

// StrClass names the length class of a generated string (for labels / canonical forms).
func StrClass(n int) string {
	switch {
	case n == 0:
		return "0"
	case n == 1:
		return "1"
	case n < 127:
		return "<127"
	case n <= 128:
		return "127-128"
	case n < 255:
		return "<255"
	case n <= 256:
		return "255-256"
	case n < 32767:
		return "<32767"
	case n <= 32768:
		return "32767-32768"
	case n < 65535:
		return "<65535"
	case n == 65535:
		return "65535"
	default:
		return ">65535"
	}
}

var fills = []string{"a", "Z", "0", " ", "é", "中", "😀", "ab", "x中", "\x00", "\x7f", "_", ":", ";"}

// BuildString makes a string of exactly n bytes from a fill pattern (multi-byte patterns are
// padded with 'p' so that the byte length is exact and no rune is cut).
func BuildString(n int, fill string) string {
	if n <= 0 {
		return ""
	}
	k := n / len(fill)
	s := strings.Repeat(fill, k)
	return s + strings.Repeat("p", n-len(s))
}

// WireMax caps every generated wire string (bytes); properties that need short frames lower it.
var WireMax = 1 << 30

// WireString draws a string whose byte length is clustered around the prefix boundaries, at most max bytes.
func WireString(t *rapid.T, label string, max int) string {
	lens := []int{0, 0, 1, 2, 5, 17, 126, 127, 128, 129, 254, 255, 256, 257, 1000, 32766, 32767, 32768, 32769, 65534, 65535, 65536, 70000}
	if max > WireMax {
		max = WireMax
	}
	var ok []int
	for _, l := range lens {
		if l <= max {
			ok = append(ok, l)
		}
	}
	var n int
	if max >= 1<<20 && rapid.IntRange(0, 199).Draw(t, label+".huge") == 101 {
		// beyond a megabyte (32-bit length prefixes have no limit of their own)
		n = rapid.SampledFrom([]int{1<<20 - 1, 1 << 20, 1<<20 + 1, 3<<20 + 5}).Draw(t, label+".hugeLen")
		if n > WireMax {
			n = WireMax
		}
		return BuildString(n, rapid.SampledFrom(fills).Draw(t, label+".fill"))
	}
	switch rapid.IntRange(0, 9).Draw(t, label+".kind") {
	case 0, 1, 2, 3: // small free-form
		if max < 40 {
			return rapid.StringN(0, max/4, max).Draw(t, label)
		}
		return rapid.StringN(0, 12, 40).Draw(t, label)
	case 4, 5, 6, 7, 8: // boundary lengths
		n = rapid.SampledFrom(ok).Draw(t, label+".len")
	default:
		hi := max
		if hi > 70000 {
			hi = 70000
		}
		n = rapid.IntRange(0, hi).Draw(t, label+".len")
	}
	fill := rapid.SampledFrom(fills).Draw(t, label+".fill")
	return BuildString(n, fill)
}

func anyByte(t *rapid.T, label string) byte { return rapid.Byte().Draw(t, label) }

func anyID(t *rapid.T, label string) int64 {
	if rapid.IntRange(0, 3).Draw(t, label+".k") == 0 {
		return rapid.SampledFrom([]int64{0, 1, -1, 1<<63 - 1, -1 << 63, 1 << 53, 1<<53 + 1, 1 << 31, 1<<32 - 1, 255, 256}).Draw(t, label)
	}
	return rapid.Int64().Draw(t, label)
}

// ResultMsg draws an AbstractResultMessage within the wire limits (msg ≤ 32767 bytes).
func ResultMsg(t *rapid.T) message.AbstractResultMessage {
	var r message.AbstractResultMessage
	if rapid.IntRange(0, 7).Draw(t, "otherCode") == 0 {
		// every byte value of the enum: codes other than Failed carry no message
		r.ResultCode = message.ResultCode(rapid.IntRange(2, 255).Draw(t, "code"))
		return r
	}
	if rapid.Bool().Draw(t, "failed") {
		r.ResultCode = message.ResultCodeFailed
		r.Msg = WireString(t, "msg", 32767)
	} else {
		r.ResultCode = message.ResultCodeSuccess
	}
	return r
}

func txResp(t *rapid.T) message.AbstractTransactionResponse {
	return message.AbstractTransactionResponse{AbstractResultMessage: ResultMsg(t), TransactionErrorCode: serror.TransactionErrorCode(anyByte(t, "exCode"))}
}

func globalEndReq(t *rapid.T) message.AbstractGlobalEndRequest {
	return message.AbstractGlobalEndRequest{Xid: WireString(t, "xid", 65535), ExtraData: []byte(WireString(t, "extra", 65535))}
}

func globalEndResp(t *rapid.T) message.AbstractGlobalEndResponse {
	return message.AbstractGlobalEndResponse{AbstractTransactionResponse: txResp(t), GlobalStatus: message.GlobalStatus(anyByte(t, "gstatus"))}
}

func branchEndReq(t *rapid.T) message.AbstractBranchEndRequest {
	return message.AbstractBranchEndRequest{Xid: WireString(t, "xid", 65535), BranchId: anyID(t, "branchId"),
		BranchType: branch.BranchType(anyByte(t, "btype")), ResourceId: WireString(t, "resource", 65535),
		ApplicationData: []byte(WireString(t, "appData", 1<<22))}
}

func branchEndResp(t *rapid.T) message.AbstractBranchEndResponse {
	return message.AbstractBranchEndResponse{AbstractTransactionResponse: txResp(t), Xid: WireString(t, "xid", 65535),
		BranchId: anyID(t, "branchId"), BranchStatus: branch.BranchStatus(anyByte(t, "bstatus"))}
}

func identReq(t *rapid.T) message.AbstractIdentifyRequest {
	return message.AbstractIdentifyRequest{Version: WireString(t, "version", 65535), ApplicationId: WireString(t, "app", 65535),
		TransactionServiceGroup: WireString(t, "group", 65535), ExtraData: []byte(WireString(t, "extra", 65535))}
}

func identResp(t *rapid.T) message.AbstractIdentifyResponse {
	return message.AbstractIdentifyResponse{Identified: rapid.Bool().Draw(t, "identified"), Version: WireString(t, "version", 65535)}
}

func registerLike(t *rapid.T) message.BranchRegisterRequest {
	return message.BranchRegisterRequest{Xid: WireString(t, "xid", 65535), BranchType: branch.BranchType(anyByte(t, "btype")),
		ResourceId: WireString(t, "resource", 65535), LockKey: WireString(t, "lockKey", 1<<22), ApplicationData: []byte(WireString(t, "appData", 1<<22))}
}

// WireMessage draws a value of the message type with the given Seata type code.
func WireMessage(t *rapid.T, code int) interface{} {
	switch code {
	case 1:
		ms := rapid.OneOf(rapid.SampledFrom([]int64{0, 1, 999, 1000, 60000, 1<<31 - 1}), rapid.Int64Range(0, 1<<31-1)).Draw(t, "timeoutMs")
		return message.GlobalBeginRequest{Timeout: time.Duration(ms) * time.Millisecond, TransactionName: WireString(t, "name", 65535)}
	case 2:
		return message.GlobalBeginResponse{AbstractTransactionResponse: txResp(t), Xid: WireString(t, "xid", 65535), ExtraData: []byte(WireString(t, "extra", 65535))}
	case 3:
		return message.BranchCommitRequest{AbstractBranchEndRequest: branchEndReq(t)}
	case 4:
		return message.BranchCommitResponse{AbstractBranchEndResponse: branchEndResp(t)}
	case 5:
		return message.BranchRollbackRequest{AbstractBranchEndRequest: branchEndReq(t)}
	case 6:
		return message.BranchRollbackResponse{AbstractBranchEndResponse: branchEndResp(t)}
	case 7:
		return message.GlobalCommitRequest{AbstractGlobalEndRequest: globalEndReq(t)}
	case 8:
		return message.GlobalCommitResponse{AbstractGlobalEndResponse: globalEndResp(t)}
	case 9:
		return message.GlobalRollbackRequest{AbstractGlobalEndRequest: globalEndReq(t)}
	case 10:
		return message.GlobalRollbackResponse{AbstractGlobalEndResponse: globalEndResp(t)}
	case 11:
		return registerLike(t)
	case 12:
		return message.BranchRegisterResponse{AbstractTransactionResponse: txResp(t), BranchId: anyID(t, "branchId")}
	case 13:
		return message.BranchReportRequest{Xid: WireString(t, "xid", 65535), BranchId: anyID(t, "branchId"), ResourceId: WireString(t, "resource", 65535),
			Status: branch.BranchStatus(anyByte(t, "bstatus")), ApplicationData: []byte(WireString(t, "appData", 1<<22)), BranchType: branch.BranchType(anyByte(t, "btype"))}
	case 14:
		return message.BranchReportResponse{AbstractTransactionResponse: txResp(t)}
	case 15:
		return message.GlobalStatusRequest{AbstractGlobalEndRequest: globalEndReq(t)}
	case 16:
		return message.GlobalStatusResponse{AbstractGlobalEndResponse: globalEndResp(t)}
	case 17:
		return message.GlobalReportRequest{AbstractGlobalEndRequest: globalEndReq(t), GlobalStatus: message.GlobalStatus(anyByte(t, "gstatus"))}
	case 18:
		return message.GlobalReportResponse{AbstractGlobalEndResponse: globalEndResp(t)}
	case 21:
		return message.GlobalLockQueryRequest{BranchRegisterRequest: registerLike(t)}
	case 22:
		return message.GlobalLockQueryResponse{AbstractTransactionResponse: txResp(t), Lockable: rapid.Bool().Draw(t, "lockable")}
	case 101:
		return message.RegisterTMRequest{AbstractIdentifyRequest: identReq(t)}
	case 102:
		return message.RegisterTMResponse{AbstractIdentifyResponse: identResp(t)}
	case 103:
		return message.RegisterRMRequest{AbstractIdentifyRequest: identReq(t), ResourceIds: WireString(t, "resourceIds", 1<<22)}
	case 104:
		return message.RegisterRMResponse{AbstractIdentifyResponse: identResp(t)}
	}
	panic("gen.WireMessage: unknown code")
}

// WireCodes lists the 24 type codes.
var WireCodes = []int{1, 2, 3, 4, 5, 6, 7, 8, 9, 10, 11, 12, 13, 14, 15, 16, 17, 18, 21, 22, 101, 102, 103, 104}
