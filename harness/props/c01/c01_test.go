// C01 — AT global rollback restores every row the transaction touched.
package c01

import (
	"context"
	"encoding/json"
	"errors"
	"fmt"
	"os"
	"sort"
	"strings"
	"testing"
	"time"

	"pgregory.net/rapid"

	"seata.apache.org/seata-go/pkg/protocol/branch"

	"verifharness/atenv"
	"verifharness/gen"
	"verifharness/memsql"
	"verifharness/pt"
	"verifharness/stats"
)

var (
	ctx = pt.New("C01")
	env *atenv.Env
)

type Case struct {
	Scenario gen.Scenario `json:"scenario"`
	// Unrelated: number of committed local transactions on other rows between phase one and phase two
	Unrelated int `json:"unrelated"`
}

var errBusiness = errors.New("business decides to roll back")

type outcome struct {
	branches   []atenv.BranchResult
	registered int
	changed    int // rows changed by registered branches
	statuses   []string
	journal    []memsql.Entry
}

func texts(sc gen.Scenario, names []string, br gen.Branch) []atenv.StmtText {
	var out []atenv.StmtText
	for _, s := range br.Stmts {
		out = append(out, atenv.StmtText{SQL: s.Text(names), Args: s.GoArgs(), Query: s.Kind == "select" || s.Kind == "select_for_update"})
	}
	return out
}

func setup(sc gen.Scenario) ([]string, error) {
	n := atenv.NextCase()
	var names []string
	for i, tb := range sc.Tables {
		name := atenv.TableName(n, i)
		names = append(names, name)
		if _, err := env.Bare.Exec(tb.DDL(name)); err != nil {
			return nil, fmt.Errorf("DDL %s: %v", tb.DDL(name), err)
		}
		if q := tb.InsertRows(name); q != "" {
			if _, err := env.Bare.Exec(q); err != nil {
				return nil, fmt.Errorf("initial rows %s: %v", q, err)
			}
		}
		for _, q := range tb.BigInserts(name) {
			if _, err := env.Bare.Exec(q); err != nil {
				return nil, fmt.Errorf("bulk rows: %v", err)
			}
		}
	}
	return names, nil
}

func dropTables(names []string) {
	for _, n := range names {
		env.Srv.DropTable(atenv.Schema, n)
	}
}

func snapshot(names []string) map[string][]string {
	return env.Srv.Snapshot(atenv.Schema, names...)
}

func diffSnap(a, b map[string][]string) string {
	var sb strings.Builder
	for t, ra := range a {
		rb := b[t]
		ma, mb := map[string]int{}, map[string]int{}
		for _, r := range ra {
			ma[r]++
		}
		for _, r := range rb {
			mb[r]++
		}
		for r, n := range ma {
			if mb[r] != n {
				fmt.Fprintf(&sb, "\n  %s: expected row missing/changed: %s", t, r)
			}
		}
		for r, n := range mb {
			if ma[r] != n {
				fmt.Fprintf(&sb, "\n  %s: unexpected row: %s", t, r)
			}
		}
	}
	return sb.String()
}

func stmtClass(sc gen.Scenario) string {
	var ks []string
	for _, b := range sc.Branches {
		for _, s := range b.Stmts {
			ks = append(ks, s.Kind)
		}
	}
	sort.Strings(ks)
	return strings.Join(ks, "+")
}

func runCase(c Case) *pt.Failure {
	return pt.Guard("C01/crash", func() *pt.Failure { return execute(c) })
}

func execute(c Case) *pt.Failure {
	sc := c.Scenario
	env.ResetCase()
	env.CleanUndo()
	atenv.UndoConfig(sc.Config.Serializer, sc.Config.Compress, sc.Config.Validation, sc.Config.OnlyUpdate)
	names, err := setup(sc)
	if err != nil {
		return pt.Failf("C01/harness/setup", "%v", err)
	}
	defer dropTables(names)
	d0 := snapshot(names)
	env.Srv.ResetJournal()
	var results []atenv.BranchResult
	xid, gerr := atenv.Global("c01", func(cx context.Context) error {
		for _, br := range sc.Branches {
			r := atenv.RunBranchOpt(cx, env.AT, atenv.BranchOpts{Mode: br.Mode, Via: br.Via, Prepared: br.Prepared, KeepGoing: br.KeepGoing}, texts(sc, names, br))
			results = append(results, r)
			if r.Failed() {
				return errors.New("branch failed: " + r.FirstErr())
			}
		}
		return errBusiness
	})
	if gerr == nil {
		return pt.Failf("C01/harness", "WithGlobalTx returned nil although the callback failed")
	}
	if _, open, _ := env.Srv.Stats(); open != 0 {
		// an engine transaction left open by phase one would block the rollback with lock waits
		return pt.Failf("C01/phase-one-left-transaction-open", "after the global transaction %d engine transactions are still open on connections %v (branch results %+v)", open, env.Srv.OpenTxConns(), results)
	}
	var extra map[string][]string
	if c.Unrelated > 0 {
		before := snapshot(names)
		for i := 0; i < c.Unrelated; i++ {
			for ti, tb := range sc.Tables {
				row := make([]string, len(tb.Cols))
				for j, col := range tb.Cols {
					switch {
					case j < len(tb.PK) && col.Base == "VARCHAR":
						row[j] = fmt.Sprintf("'zz%d'", 7000+i)
					case j < len(tb.PK):
						row[j] = fmt.Sprint(7000 + i)
					case len(tb.Unique) > 0 && tb.Unique[0] == col.Name && (col.Base == "INT" || col.Base == "BIGINT"):
						row[j] = fmt.Sprint(7000 + i)
					case len(tb.Unique) > 0 && tb.Unique[0] == col.Name:
						row[j] = fmt.Sprintf("'uq%d'", 7000+i)
					case col.Nullable:
						row[j] = "NULL"
					case col.Default != nil:
						row[j] = "DEFAULT"
					default:
						row[j] = gen.Lit{Kind: map[string]string{"VARCHAR": "str", "CHAR": "str", "TEXT": "str", "VARBINARY": "bytes", "BLOB": "bytes", "DATETIME": "time", "DATE": "time", "DECIMAL": "float", "DOUBLE": "float", "FLOAT": "float"}[col.Base], S: "2020-01-01T00:00:00Z"}.SQL()
						if row[j] == "NULL" {
							row[j] = "1"
						}
						if col.Base == "VARCHAR" || col.Base == "CHAR" || col.Base == "TEXT" {
							row[j] = fmt.Sprintf("'u%d'", i)
						}
					}
				}
				_, _ = env.Bare.Exec("INSERT INTO " + names[ti] + " VALUES (" + strings.Join(row, ", ") + ")")
			}
		}
		after := snapshot(names)
		extra = map[string][]string{}
		for t, rows := range after {
			have := map[string]int{}
			for _, r := range before[t] {
				have[r]++
			}
			for _, r := range rows {
				if have[r] > 0 {
					have[r]--
					continue
				}
				extra[t] = append(extra[t], r)
			}
		}
	}
	if os.Getenv("C01_DBG_UNDO") != "" {
		for _, r := range env.UndoRows(xid) {
			fmt.Printf("UNDO branch=%v status=%v ctx=%s info=%s\n", r["branch_id"], r["log_status"], r["context"], r["rollback_info"])
		}
	}
	brs := env.TC.Branches()
	changed := 0
	for _, e := range env.Srv.Journal() {
		if e.Kind == "E" || e.Kind == "PE" {
			if !strings.Contains(strings.ToLower(e.Query), "undo_log") {
				changed += len(e.Writes)
			}
		}
	}
	for i := len(brs) - 1; i >= 0; i-- {
		wait := 5 * time.Second
		if sc.Tables[0].BigRows > 0 {
			wait = 120 * time.Second // thousands of compensating statements
		}
		st, resp := env.TC.BranchRollback(env.Sess, brs[i], wait)
		if resp == nil {
			return pt.Failf(sigOf(sc, "no-rollbacked-answer"), "branch %d (lock keys %q): no response to BranchRollback although nothing interferes\n%s", brs[i].ID, brs[i].LockKey, tail(env.Srv.Journal(), 14))
		}
		if st != branch.BranchStatusPhasetwoRollbacked {
			return pt.Failf(sigOf(sc, "rollback-refused"), "branch %d (lock keys %q): answered %v although nothing interferes\n%s", brs[i].ID, brs[i].LockKey, st, tail(env.Srv.Journal(), 14))
		}
	}
	want := d0
	if extra != nil {
		want = map[string][]string{}
		for t, rows := range d0 {
			want[t] = append(append([]string{}, rows...), extra[t]...)
		}
	}
	got := snapshot(names)
	if d := diffSnap(want, got); d != "" {
		return pt.Failf(sigOf(sc, "not-restored"), "every branch answered Rollbacked but the tables differ from before the global transaction:%s\nstatements: %s\n%s", d, describe(sc, names), tail(env.Srv.Journal(), 20))
	}
	normal := 0
	for _, r := range env.UndoRows(xid) {
		if st, _ := r["log_status"].(int64); st == 0 { // a global-finished marker (status 1) is not a branch's undo log
			normal++
		}
	}
	if normal != 0 {
		return pt.Failf("C01/undo-log-left", "%d undo_log rows left for %s after all branches were rolled back", normal, xid)
	}
	if _, open, _ := env.Srv.Stats(); open != 0 {
		return pt.Failf("C01/rollback-left-transaction-open", "engine transactions still open after rollback: connections %v", env.Srv.OpenTxConns())
	}
	lastOutcome = outcome{branches: results, registered: len(brs), changed: changed}
	return nil
}

var lastOutcome outcome

func tail(j []memsql.Entry, n int) string {
	if len(j) > n {
		j = j[len(j)-n:]
	}
	var sb strings.Builder
	for _, e := range j {
		sb.WriteString("    " + e.String() + "\n")
	}
	return sb.String()
}

func describe(sc gen.Scenario, names []string) string {
	var parts []string
	for _, b := range sc.Branches {
		for _, s := range b.Stmts {
			parts = append(parts, fmt.Sprintf("%s %v", s.Text(names), s.GoArgs()))
		}
	}
	return strings.Join(parts, " ; ")
}

// sigOf builds a signature from the failure kind and the statement feature that characterises the
// input class (root causes, not inputs): the features of the known findings first, otherwise the
// statement kinds.
func sigOf(sc gen.Scenario, what string) string {
	feature := ""
	for _, b := range sc.Branches {
		for _, s := range b.Stmts {
			switch {
			case b.Prepared:
				feature = "prepared-statement"
			case s.HasClass("auto-inc-null") && feature == "":
				feature = "auto-inc-null-key"
			case s.Kind == "upsert" && len(sc.Tables[s.Table].Unique) > 0 && feature == "":
				feature = "upsert-on-unique-index"
			}
		}
	}
	if feature == "" {
		feature = stmtClass(sc)
	}
	return fmt.Sprintf("C01/%s/%s", what, feature)
}

func record(test string, c Case, o outcome) {
	sc := c.Scenario
	labels := []string{"config:" + sc.Config.Serializer + "/" + sc.Config.Compress, fmt.Sprintf("validation:%v", sc.Config.Validation), fmt.Sprintf("only-update-cols:%v", sc.Config.OnlyUpdate),
		fmt.Sprintf("unrelated-tx:%d", c.Unrelated), fmt.Sprintf("branches-registered:%d", o.registered)}
	var shape []string
	for _, tb := range sc.Tables {
		labels = append(labels, "key:"+tb.KeyShape)
		var ts []string
		for _, col := range tb.Cols {
			ts = append(ts, col.Base)
		}
		shape = append(shape, tb.KeyShape+":"+strings.Join(ts, ","))
	}
	for bi, b := range sc.Branches {
		labels = append(labels, "mode:"+b.Mode+"/"+b.Via, fmt.Sprintf("prepared:%v", b.Prepared))
		for si, s := range b.Stmts {
			labels = append(labels, "stmt:"+s.Kind)
			for _, cl := range s.Classes {
				labels = append(labels, "class:"+cl)
			}
			res := "-"
			if bi < len(o.branches) && si < len(o.branches[bi].Stmts) {
				r := o.branches[bi].Stmts[si]
				switch {
				case r.Err != "":
					res = "err"
					labels = append(labels, "business-statement-fails")
				case r.Affected == 0:
					res = "0"
					labels = append(labels, "rows:0")
				case r.Affected == 1:
					res = "1"
					labels = append(labels, "rows:1")
				default:
					res = "many"
					labels = append(labels, "rows:many")
				}
			}
			shape = append(shape, s.Kind+"/"+s.Where+"/"+res)
		}
	}
	shape = append(shape, fmt.Sprintf("%+v", sc.Config))
	ctx.Rec.Case(test, o.registered >= 1 && o.changed >= 1, strings.Join(shape, ";"), c, labels...)
}

func TestMain(m *testing.M) {
	env = atenv.Get(atenv.Options{})
	ctx.Rec.SetRule("generator: AT scenarios = 1–2 tables (key shape int / bigint auto-increment / varchar / composite; 1–4 further columns over INT BIGINT TINYINT SMALLINT VARCHAR CHAR TEXT DECIMAL DOUBLE FLOAT DATETIME DATE VARBINARY BLOB, nullable flags, defaults, optional unique index; 0–6 boundary-biased initial rows) × 1–3 branches (autocommit statement or explicit transaction of 1–3 statements, through db or a pinned Conn, Exec or prepared) × statements from the DML grammar (INSERT 1–3 rows with literals/parameters/NULL/DEFAULT, key given/omitted/NULL; UPDATE with literal, parameter or arithmetic assignments; DELETE; INSERT…ON DUPLICATE KEY UPDATE; WHERE from =, <>, <, >, IN, BETWEEN, AND/OR, parentheses, LIKE, IS NULL, ORDER BY/LIMIT, matching 0/1/many rows) × serializer json × 10 compress-type spellings × data validation × only-care-update-columns; the business callback fails after its last branch, the coordinator then sends BranchRollback for every registered branch in reverse order, immediately or after 1–3 committed local transactions on other rows. Oracle: every answer is Rollbacked, tables equal the snapshot before the global transaction (typed multiset equality), no undo_log row for the xid, no engine transaction left open. Non-trivial: ≥1 registered branch that changed ≥1 row and was rolled back. Distinct by (key shapes, column types, statement kinds with WHERE shape and match cardinality, configuration).")
	ctx.Rec.Assume("MySQL / go-sql-driver behaviour as modelled by memsql (DESIGN §4.1)", "coordinator as modelled by faketc", "protobuf serializer excluded here: it reads every value back as a JSON generic (integers as float64, known finding C08-K1), which makes the rollback validation refuse every branch")
	ctx.RunWitnesses(func(f stats.Finding) *pt.Failure {
		var c Case
		if err := json.Unmarshal(f.Witness, &c); err != nil {
			return nil
		}
		return runCase(c)
	})
	ctx.Main(m)
}

// scenarioOptions excludes, by construction, the statement classes of the listed known findings
// that are still active on this tree (each exclusion is lifted when its witness passes).
func scenarioOptions() gen.ScenarioOptions {
	o := gen.ScenarioOptions{Stmt: gen.StmtOptions{ForceParamStrings: true}}
	if os.Getenv("C01_NO_EXCLUSIONS") != "" {
		return o
	}
	active := func(id string) bool {
		return ctx.KnownActive(id) || strings.Contains(os.Getenv("C01_FORCE_EXCL"), id)
	}
	o.NoPrepared = active("C01-K1")
	o.Stmt.NoMultiRowInsert = active("C01-K2")
	o.Stmt.NoNullAutoKey = active("C01-K3")
	o.Stmt.NoUpsertOnUnique = active("C01-K4")
	return o
}

var bigDone bool

// bigCase: every process begins with one statement over more rows than one IN list of the image and
// validation queries holds (1000); size and statement kind follow the shard number.
func bigCase() Case {
	sh := 0
	if v := os.Getenv("VERIF_SHARD"); v != "" {
		fmt.Sscanf(v, "%d", &sh)
	}
	n := []int{1001, 2000, 1500, 1000, 999, 2001, 2500, 3000}[sh%8]
	kind := []string{"update", "delete", "insert"}[(sh/2)%3]
	tb := gen.TableSpec{KeyShape: "int", Cols: []gen.ColSpec{{Name: "id", Type: "INT", Base: "INT"}, {Name: "c0", Type: "INT", Base: "INT", Nullable: true}, {Name: "c1", Type: "VARCHAR(32)", Base: "VARCHAR", Nullable: true}}, PK: []string{"id"},
		Rows: [][]gen.Lit{{{Kind: "int", I: 1}, {Kind: "int", I: 5}, {Kind: "str", S: "a"}}}, BigRows: n}
	tables := []gen.TableSpec{tb}
	return Case{Scenario: gen.Scenario{Tables: tables, Branches: []gen.Branch{{Mode: "auto", Via: "db", Stmts: []gen.Stmt{gen.BigStmt(nil, tables, 0, kind, n)}}},
		Config: gen.Config{Serializer: "json", Compress: "None", Validation: true, OnlyUpdate: sh%2 == 0}}}
}

func TestPropRollbackRestores(t *testing.T) {
	if !bigDone {
		bigDone = true
		c := bigCase()
		lastOutcome = outcome{}
		fl := runCase(c)
		record("rollback", c, lastOutcome)
		ctx.Judge(t, "rollback", fl, c)
	}
	ctx.Check(t, func(rt *rapid.T) {
		c := Case{Scenario: gen.DrawScenario(rt, scenarioOptions()),
			Unrelated: rapid.SampledFrom([]int{0, 0, 1, 3}).Draw(rt, "unrelated")}
		if c.Scenario.Tables[0].KeyShape == "int" && len(c.Scenario.Tables[0].Unique) == 0 && rapid.IntRange(0, 299).Draw(rt, "large") == 157 {
			// a statement over more rows than one IN list of the image / validation queries holds (1000)
			n := rapid.SampledFrom([]int{999, 1000, 1001, 1500, 2000, 2001}).Draw(rt, "bigRows")
			c.Scenario.Tables[0].BigRows = n
			kind := rapid.SampledFrom([]string{"update", "update", "delete", "insert"}).Draw(rt, "bigKind")
			st := gen.BigStmt(rt, c.Scenario.Tables, 0, kind, n)
			c.Scenario.Branches = append([]gen.Branch{{Mode: "auto", Via: "db", Stmts: []gen.Stmt{st}}}, c.Scenario.Branches...)
		}
		lastOutcome = outcome{}
		fl := runCase(c)
		record("rollback", c, lastOutcome)
		ctx.Judge(rt, "rollback", fl, c)
	})
	for opt, id := range map[string]string{"NoPrepared": "C01-K1", "NoNullAutoKey": "C01-K3", "NoUpsertOnUnique": "C01-K4"} {
		for i := 0; i < gen.Excluded[opt]; i++ {
			ctx.Rec.Excluded(id)
		}
	}
}

func TestPropReplaySaved(t *testing.T) {
	ctx.ReplayAll(t, func(v *stats.Violation) *pt.Failure {
		var c Case
		if err := json.Unmarshal(v.Case, &c); err != nil {
			return pt.Failf("C01/replay", "bad case: %v", err)
		}
		return runCase(c)
	})
}

func TestReplay(t *testing.T) {
	var c Case
	v, ok := pt.Replay(t, &c)
	if !ok {
		t.Skip("no VERIF_REPLAY_FILE")
	}
	defer ctx.Rec.Flush()
	lastOutcome = outcome{}
	fl := runCase(c)
	record("replay", c, lastOutcome)
	ctx.Judge(t, v.Test, fl, c)
}
