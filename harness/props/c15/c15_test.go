// C15 — every coordinator phase-two request gets one correctly addressed, truthful reply.
package c15

import (
	"context"
	"encoding/json"
	"errors"
	"fmt"
	"os"
	"sort"
	"sync"
	"sync/atomic"
	"testing"
	"time"

	getty "github.com/apache/dubbo-getty"
	"pgregory.net/rapid"

	"seata.apache.org/seata-go/pkg/protocol/branch"
	"seata.apache.org/seata-go/pkg/protocol/message"
	sgetty "seata.apache.org/seata-go/pkg/remoting/getty"
	"seata.apache.org/seata-go/pkg/rm"

	"verifharness/boot"
	"verifharness/pt"
	"verifharness/refwire"
	"verifharness/stats"
)

var ctx = pt.New("C15")

type Req struct {
	MsgID      int32  `json:"msg_id"`
	Rollback   bool   `json:"rollback"`
	BranchType int8   `json:"branch_type"` // 0 AT, 1 TCC, 3 XA, other = unknown type
	Xid        string `json:"xid"`
	BranchID   int64  `json:"branch_id"`
	ResourceID string `json:"resource_id"`
	AppData    string `json:"app_data,omitempty"`
	// what the manager answers
	Status  int8 `json:"status"`
	Err     bool `json:"err,omitempty"`
	DelayMs int  `json:"delay_ms,omitempty"`
}

type Case struct {
	Reqs     []Req `json:"reqs"`
	InFlight int   `json:"in_flight"` // deliveries started together
}

// ---- recording stub managers -----------------------------------------------------------------

type call struct {
	stubType int8
	rollback bool
	res      rm.BranchResource
}

type stub struct {
	typ    branch.BranchType
	mu     *sync.Mutex
	calls  *[]call
	script *map[string]Req
}

func key(rollback bool, branchID int64) string { return fmt.Sprintf("%v/%d", rollback, branchID) }

func (s *stub) handle(rollback bool, r rm.BranchResource) (branch.BranchStatus, error) {
	s.mu.Lock()
	*s.calls = append(*s.calls, call{int8(s.typ), rollback, r})
	q, ok := (*s.script)[key(rollback, r.BranchId)]
	s.mu.Unlock()
	if !ok {
		return 0, errors.New("stub: unscripted request")
	}
	if q.DelayMs > 0 {
		time.Sleep(time.Duration(q.DelayMs) * time.Millisecond)
	}
	if q.Err {
		return branch.BranchStatus(q.Status), errors.New("manager failed")
	}
	return branch.BranchStatus(q.Status), nil
}
func (s *stub) BranchCommit(c context.Context, r rm.BranchResource) (branch.BranchStatus, error) {
	return s.handle(false, r)
}
func (s *stub) BranchRollback(c context.Context, r rm.BranchResource) (branch.BranchStatus, error) {
	return s.handle(true, r)
}
func (s *stub) BranchRegister(context.Context, rm.BranchRegisterParam) (int64, error) { return 0, nil }
func (s *stub) BranchReport(context.Context, rm.BranchReportParam) error              { return nil }
func (s *stub) LockQuery(context.Context, rm.LockQueryParam) (bool, error)            { return true, nil }
func (s *stub) RegisterResource(rm.Resource) error                                    { return nil }
func (s *stub) UnregisterResource(rm.Resource) error                                  { return nil }
func (s *stub) GetCachedResources() *sync.Map                                         { return &sync.Map{} }
func (s *stub) GetBranchType() branch.BranchType                                      { return s.typ }

var (
	mu     sync.Mutex
	calls  []call
	script map[string]Req
)

// ---- wire-level session ----------------------------------------------------------------------

// wireSession receives what the client writes as the byte frame a coordinator would get: the real
// RpcPackageHandler.Write produces the bytes, the independent framer and layout table decode them.
type wireSession struct {
	getty.Session
	closed int32
	mu     sync.Mutex
	frames []refwire.Frame
	bodies []interface{}
	bad    []string
}

func (s *wireSession) IsClosed() bool                        { return atomic.LoadInt32(&s.closed) == 1 }
func (s *wireSession) RemoteAddr() string                    { return "127.0.0.1:8091" }
func (s *wireSession) Stat() string                          { return "wire-session" }
func (s *wireSession) Close()                                { atomic.StoreInt32(&s.closed, 1) }
func (s *wireSession) GetAttribute(interface{}) interface{}  { return nil }
func (s *wireSession) SetAttribute(interface{}, interface{}) {}
func (s *wireSession) WritePkg(pkg interface{}, _ time.Duration) (int, int, error) {
	h := &sgetty.RpcPackageHandler{}
	b, err := h.Write(s, pkg)
	if err != nil {
		return 0, 0, err
	}
	s.mu.Lock()
	defer s.mu.Unlock()
	fr, n, err := refwire.DecodeFrame(b)
	if err != nil || n != len(b) {
		s.bad = append(s.bad, fmt.Sprintf("frame not decodable: %v (%d of %d bytes)", err, n, len(b)))
		return len(b), 0, nil
	}
	var body interface{}
	if len(fr.Body) > 0 {
		m, rest, err := refwire.DecodeBody(fr.Body)
		if err != nil || rest != 0 {
			s.bad = append(s.bad, fmt.Sprintf("body of frame id %d not decodable by the v1 layout: %v rest=%d", fr.ID, err, rest))
		}
		body = m
	}
	s.frames = append(s.frames, fr)
	s.bodies = append(s.bodies, body)
	return len(b), 0, nil
}

func (s *wireSession) reset() {
	s.mu.Lock()
	s.frames, s.bodies, s.bad = nil, nil, nil
	s.mu.Unlock()
}

var sess *wireSession

// deliver sends a request as bytes through the real frame reader and hands the package to OnMessage.
func deliver(q Req) error {
	end := message.AbstractBranchEndRequest{Xid: q.Xid, BranchId: q.BranchID, BranchType: branch.BranchType(q.BranchType), ResourceId: q.ResourceID, ApplicationData: []byte(q.AppData)}
	var body interface{} = message.BranchCommitRequest{AbstractBranchEndRequest: end}
	if q.Rollback {
		body = message.BranchRollbackRequest{AbstractBranchEndRequest: end}
	}
	b := refwire.EncodeFrame(refwire.Frame{ID: q.MsgID, Type: byte(message.GettyRequestTypeRequestSync), Codec: 1, Body: refwire.EncodeBody(body)})
	pkg, n, err := (&sgetty.RpcPackageHandler{}).Read(sess, b)
	if err != nil || pkg == nil || n != len(b) {
		return fmt.Errorf("real reader rejected a v1 request frame: pkg=%v n=%d err=%v", pkg, n, err)
	}
	func() {
		defer func() { _ = recover() }() // a panic of the processor is confined to getty's task goroutine
		sgetty.GetGettyClientHandlerInstance().OnMessage(sess, pkg)
	}()
	return nil
}

func success(st int8) bool {
	return st == branch.BranchStatusPhasetwoCommitted || st == branch.BranchStatusPhasetwoRollbacked
}

func runCase(c Case) *pt.Failure {
	return pt.Guard("C15/crash", func() *pt.Failure {
		mu.Lock()
		calls = nil
		script = map[string]Req{}
		for _, q := range c.Reqs {
			script[key(q.Rollback, q.BranchID)] = q
		}
		mu.Unlock()
		sess.reset()
		inflight := c.InFlight
		if inflight < 1 {
			inflight = 1
		}
		var wg sync.WaitGroup
		sem := make(chan struct{}, inflight)
		var derr atomic.Value
		for _, q := range c.Reqs {
			wg.Add(1)
			sem <- struct{}{}
			go func(q Req) {
				defer wg.Done()
				defer func() { <-sem }()
				if err := deliver(q); err != nil {
					derr.Store(err)
				}
			}(q)
		}
		wg.Wait()
		if e := derr.Load(); e != nil {
			return pt.Failf("C15/request-frame-rejected", "%v", e)
		}
		mu.Lock()
		got := append([]call(nil), calls...)
		mu.Unlock()
		sess.mu.Lock()
		frames := append([]refwire.Frame(nil), sess.frames...)
		bodies := append([]interface{}(nil), sess.bodies...)
		bad := append([]string(nil), sess.bad...)
		sess.mu.Unlock()
		if len(bad) > 0 {
			return pt.Failf("C15/response-undecodable", "%v", bad)
		}
		usedFrame := make([]bool, len(frames))
		for _, q := range c.Reqs {
			known := q.BranchType == 0 || q.BranchType == 1 || q.BranchType == 3
			// manager invocation
			n := 0
			for _, cl := range got {
				if cl.rollback == q.Rollback && cl.res.BranchId == q.BranchID {
					n++
					if cl.stubType != q.BranchType {
						return pt.Failf("C15/wrong-manager", "request %+v was routed to the manager of branch type %d", q, cl.stubType)
					}
					if cl.res.Xid != q.Xid || cl.res.ResourceId != q.ResourceID || string(cl.res.ApplicationData) != q.AppData {
						return pt.Failf("C15/manager-arguments", "manager got xid=%q resource=%q data=%q for request %+v", cl.res.Xid, cl.res.ResourceId, cl.res.ApplicationData, q)
					}
				}
			}
			same := 0 // requests for this (kind, branch id): a coordinator re-sends with a new message id
			for _, o := range c.Reqs {
				if o.Rollback == q.Rollback && o.BranchID == q.BranchID {
					same++
				}
			}
			if known && n != same {
				return pt.Failf("C15/manager-invocations", "manager invoked %d times for %d request(s) like %+v", n, same, q)
			}
			if !known && n != 0 {
				return pt.Failf("C15/unknown-type-routed", "request with unknown branch type %d reached a manager", q.BranchType)
			}
			// responses carrying this request's message id
			var mine []int
			for i, fr := range frames {
				if fr.ID == q.MsgID && fr.Type == byte(message.GettyRequestTypeResponse) {
					mine = append(mine, i)
				}
			}
			expectReply := known && !q.Err
			if !expectReply {
				for _, i := range mine {
					st, _, _ := statusOf(bodies[i])
					if success(st) {
						return pt.Failf("C15/success-on-failure", "manager failed (or unknown branch type) but a response with success status %d was sent for %+v", st, q)
					}
					usedFrame[i] = true
				}
				continue
			}
			if len(mine) != 1 {
				return pt.Failf("C15/response-count", "%d responses with message id %d for request %+v (all frames: %d)", len(mine), q.MsgID, q, len(frames))
			}
			usedFrame[mine[0]] = true
			st, xid, bid := statusOf(bodies[mine[0]])
			wantT := "message.BranchCommitResponse"
			if q.Rollback {
				wantT = "message.BranchRollbackResponse"
			}
			if fmt.Sprintf("%T", bodies[mine[0]]) != wantT {
				return pt.Failf("C15/response-type", "response to %+v has type %T", q, bodies[mine[0]])
			}
			if xid != q.Xid || bid != q.BranchID {
				return pt.Failf("C15/response-address", "response to message id %d carries xid=%q branch=%d, request had xid=%q branch=%d", q.MsgID, xid, bid, q.Xid, q.BranchID)
			}
			if st != q.Status {
				return pt.Failf("C15/response-status", "response to %+v carries status %d, manager returned %d", q, st, q.Status)
			}
		}
		for i, u := range usedFrame {
			if !u {
				return pt.Failf("C15/extra-response", "unsolicited frame id=%d type=%d body=%T", frames[i].ID, frames[i].Type, bodies[i])
			}
		}
		return nil
	})
}

func statusOf(b interface{}) (st int8, xid string, bid int64) {
	switch r := b.(type) {
	case message.BranchCommitResponse:
		return int8(r.BranchStatus), r.Xid, r.BranchId
	case message.BranchRollbackResponse:
		return int8(r.BranchStatus), r.Xid, r.BranchId
	}
	return -1, "", 0
}

// ---- generator -------------------------------------------------------------------------------

var xids = []string{"127.0.0.1:8091:1", "192.168.100.200:18091:9223372036854775807", "事务:8091:42", "x", "10.0.0.1:8091:" + string(make([]byte, 0))}

func drawCase(t *rapid.T) Case {
	n := rapid.IntRange(1, 16).Draw(t, "n")
	c := Case{InFlight: rapid.SampledFrom([]int{1, 2, 4, 16}).Draw(t, "inFlight")}
	usedB := map[string]bool{}
	usedM := map[int32]bool{}
	for i := 0; i < n; i++ {
		q := Req{
			Rollback:   rapid.Bool().Draw(t, "rollback"),
			BranchType: rapid.SampledFrom([]int8{0, 0, 1, 1, 3, 3, 3, 2, -1}).Draw(t, "btype"),
			Xid:        rapid.OneOf(rapid.SampledFrom(xids), rapid.StringN(1, 20, 60), rapid.Just(string(make([]rune, 0))+longXid)).Draw(t, "xid"),
			BranchID:   rapid.OneOf(rapid.SampledFrom([]int64{0, 1, -1, 1<<63 - 1, -1 << 63, 1 << 53}), rapid.Int64()).Draw(t, "branchId"),
			ResourceID: rapid.SampledFrom([]string{"jdbc:mysql://127.0.0.1:3306/db", "tcc-action", "", "资源"}).Draw(t, "resource"),
			AppData:    rapid.SampledFrom([]string{"", `{"actionContext":{"a":1}}`, "not json", "\x00\xff"}).Draw(t, "appData"),
			MsgID:      rapid.OneOf(rapid.SampledFrom([]int32{0, 1, 2, -1, 1<<31 - 1, -1 << 31}), rapid.Int32()).Draw(t, "msgId"),
			Err:        rapid.IntRange(0, 3).Draw(t, "err?") == 0,
			DelayMs:    rapid.SampledFrom([]int{0, 0, 1, 3}).Draw(t, "delay"),
		}
		q.Status = rapid.SampledFrom([]int8{branch.BranchStatusPhasetwoCommitted, branch.BranchStatusPhasetwoCommitFailedRetryable, branch.BranchStatusPhasetwoCommitFailedUnretryable,
			branch.BranchStatusPhasetwoRollbacked, branch.BranchStatusPhasetwoRollbackFailedRetryable, branch.BranchStatusPhasetwoRollbackFailedUnretryable, 0}).Draw(t, "status")
		if usedB[key(q.Rollback, q.BranchID)] || usedM[q.MsgID] {
			continue
		}
		usedB[key(q.Rollback, q.BranchID)] = true
		usedM[q.MsgID] = true
		c.Reqs = append(c.Reqs, q)
		// the coordinator sends a request again (new message id) while the first one is still being
		// worked on: both must be answered
		if rapid.IntRange(0, 5).Draw(t, "resend") == 0 {
			r := q
			r.MsgID = q.MsgID ^ 0x5a5a5a
			if !usedM[r.MsgID] {
				usedM[r.MsgID] = true
				c.Reqs[len(c.Reqs)-1].DelayMs = 5
				r.DelayMs = 5
				c.Reqs = append(c.Reqs, r)
				if c.InFlight < 2 {
					c.InFlight = 2
				}
			}
		}
	}
	return c
}

var longXid = func() string {
	b := make([]byte, 600)
	for i := range b {
		b[i] = 'x'
	}
	return "10.1.2.3:8091:" + string(b)
}()

func record(test string, c Case) {
	types := map[int8]bool{}
	fails := 0
	var shape []string
	for _, q := range c.Reqs {
		types[q.BranchType] = true
		if q.Err {
			fails++
		}
		shape = append(shape, fmt.Sprintf("%v/%d/%v/%d", q.Rollback, q.BranchType, q.Err, q.Status))
	}
	sort.Strings(shape)
	known := 0
	for _, t := range []int8{0, 1, 3} {
		if types[t] {
			known++
		}
	}
	labels := []string{fmt.Sprintf("in-flight:%d", c.InFlight), fmt.Sprintf("branch-types:%d", known)}
	if types[2] || types[-1] {
		labels = append(labels, "unknown-branch-type")
	}
	if fails > 0 {
		labels = append(labels, "manager-failure")
	}
	ctx.Rec.Case(test, known >= 2 && fails >= 1 && c.InFlight > 1, fmt.Sprintf("%d|%v", c.InFlight, shape), c, labels...)
}

func TestMain(m *testing.M) {
	boot.Init("")
	sess = &wireSession{}
	if err := sgetty.GetGettyClientHandlerInstance().OnOpen(sess); err != nil {
		panic(err)
	}
	time.Sleep(50 * time.Millisecond)
	for _, t := range []branch.BranchType{branch.BranchTypeAT, branch.BranchTypeTCC, branch.BranchTypeXA} {
		rm.GetRmCacheInstance().RegisterResourceManager(&stub{typ: t, mu: &mu, calls: &calls, script: &script})
	}
	ctx.Rec.SetRule("generator: streams of 1–16 coordinator requests {commit, rollback} × branch type {AT, TCC, XA, plus SAGA/unknown as a labelled class} × xids (ip:port:id, multi-byte, 600-byte) × full-range branch ids and message ids × resource ids × application data, each with a scripted manager outcome (status byte, error or not, delay), delivered with 1–16 in flight on one session. The three resource managers in the rm cache are replaced by recording stubs; requests enter as v1 byte frames through the real frame reader, responses are captured as the bytes the real writer produces and decoded with the independent framer/layout. Oracle: manager of the request's branch type invoked exactly once with the request's fields; one response with the request's message id, xid, branch id and exactly the manager's status; on manager error no success status; no extra frames. Non-trivial: ≥2 branch types, ≥1 manager failure, >1 in flight. Distinct by the multiset of (kind, type, failure, status) and concurrency.")
	ctx.Rec.Assume("an unknown branch type makes GetResourceManager panic by design (confined to the task goroutine); such requests get the weakest oracle: no success reply")
	ctx.RunWitnesses(func(f stats.Finding) *pt.Failure {
		var c Case
		if err := json.Unmarshal(f.Witness, &c); err != nil {
			return nil
		}
		return runCase(c)
	})
	ctx.Main(m)
}

func TestPropStreams(t *testing.T) {
	ctx.Check(t, func(rt *rapid.T) {
		c := drawCase(rt)
		if len(c.Reqs) == 0 {
			return
		}
		record("streams", c)
		ctx.Judge(rt, "streams", runCase(c), c)
	})
}

// TestPropSlowManager: a resource manager that needs longer than the client's own rpc timeout (20 s) for a
// phase-two request still gets its answer sent (whether the coordinator still waits is the coordinator's
// business). One commit and one rollback, side by side, once per process; the shard decides the branch type.
func TestPropSlowManager(t *testing.T) {
	sh := 0
	if v := os.Getenv("VERIF_SHARD"); v != "" {
		fmt.Sscanf(v, "%d", &sh)
	}
	bt := []int8{0, 1, 3}[sh%3]
	c := Case{InFlight: 2, Reqs: []Req{
		{MsgID: 901, Rollback: false, BranchType: bt, Xid: "10.0.0.1:8091:901", BranchID: 901, ResourceID: "slow", Status: int8(branch.BranchStatusPhasetwoCommitted), DelayMs: 20600},
		{MsgID: 902, Rollback: true, BranchType: bt, Xid: "10.0.0.1:8091:902", BranchID: 902, ResourceID: "slow", Status: int8(branch.BranchStatusPhasetwoRollbacked), DelayMs: 20300},
	}}
	record("slow-manager", c)
	ctx.Judge(t, "slow-manager", runCase(c), c)
}

func TestPropReplaySaved(t *testing.T) {
	ctx.ReplayAll(t, func(v *stats.Violation) *pt.Failure {
		var c Case
		if err := json.Unmarshal(v.Case, &c); err != nil {
			return pt.Failf("C15/replay", "bad case: %v", err)
		}
		return runCase(c)
	})
}

func TestReplay(t *testing.T) {
	var c Case
	v, ok := pt.Replay(t, &c)
	if !ok {
		t.Skip("no VERIF_REPLAY_FILE")
	}
	defer ctx.Rec.Flush()
	record("replay", c)
	ctx.Judge(t, v.Test, runCase(c), c)
}
