// C17 — XA branches follow the XA protocol; phase two addresses the prepared branch.
package c17

import (
	"context"
	"encoding/json"
	"errors"
	"fmt"
	"os"
	"regexp"
	"sort"
	"strings"
	"sync"
	"testing"
	"time"

	"pgregory.net/rapid"

	seatasql "seata.apache.org/seata-go/pkg/datasource/sql"
	"seata.apache.org/seata-go/pkg/datasource/sql/datasource"
	"seata.apache.org/seata-go/pkg/protocol/branch"
	"seata.apache.org/seata-go/pkg/protocol/message"

	"verifharness/atenv"
	"verifharness/faketc"
	"verifharness/gen"
	"verifharness/jclock"
	"verifharness/memsql"
	"verifharness/pt"
	"verifharness/stats"
)

var (
	ctx     = pt.New("C17")
	env     *atenv.Env
	version string
)

type Case struct {
	Kind string `json:"kind"` // ident | scenario
	// ident
	Xid      string `json:"xid,omitempty"`
	BranchID uint64 `json:"branch_id,omitempty"`
	Xid2     string `json:"xid2,omitempty"`
	Branch2  uint64 `json:"branch_id2,omitempty"`
	// scenario
	Tables   []gen.TableSpec `json:"tables,omitempty"`
	Branch   gen.Branch      `json:"branch,omitempty"`
	Decision string          `json:"decision,omitempty"` // commit | rollback (what the business callback decides when nothing failed)
	Target   string          `json:"target,omitempty"`   // holder | fresh (phase two on a process that never saw phase one)
	Plan     string          `json:"plan,omitempty"`     // "" = enumerate; none | db:<k> | drop:<k> | register-fail | register-transport
	// Outlives: the branch execution timeout is 30 ms for this case and the explicit local transaction waits
	// 60 ms before its Commit: the branch is given up (rolled back, error to the caller), plan "none" only
	Outlives bool `json:"outlives,omitempty"`
	// StmtBg: the statements of the explicit transaction run with context.Background() (only BeginTx got the xid)
	StmtBg bool `json:"stmt_bg,omitempty"`
	// Server: the server profile of the process that ran the case (fixed per process; a replay adopts it)
	Server string `json:"server,omitempty"`
	// KeepGoing: the caller of an explicit transaction ignores a failed statement, runs the rest and calls
	// Commit; it gives up (global rollback) only when BeginTx or Commit fail
	KeepGoing bool `json:"keep_going,omitempty"`
}

// ---- identifiers -----------------------------------------------------------------------------

func runIdent(c Case) *pt.Failure {
	id := seatasql.XaIdBuild(c.Xid, c.BranchID)
	want := fmt.Sprintf("%s-%d", c.Xid, c.BranchID)
	if id.String() != want {
		return pt.Failf("C17/ident/string", "XaIdBuild(%q,%d).String() = %q, want %q", c.Xid, c.BranchID, id.String(), want)
	}
	if id.GetGlobalXid() != c.Xid || id.GetBranchId() != c.BranchID {
		return pt.Failf("C17/ident/accessors", "XaIdBuild(%q,%d) reports (%q,%d)", c.Xid, c.BranchID, id.GetGlobalXid(), id.GetBranchId())
	}
	back := seatasql.XaIdBuildWithByte(id.GetGlobalTransactionId(), id.GetBranchQualifier())
	if back.GetGlobalXid() != c.Xid || back.GetBranchId() != c.BranchID {
		return pt.Failf("C17/ident/round-trip", "bytes of (%q,%d) decode to (%q,%d)", c.Xid, c.BranchID, back.GetGlobalXid(), back.GetBranchId())
	}
	if back.String() != id.String() {
		return pt.Failf("C17/ident/round-trip-string", "%q vs %q", back.String(), id.String())
	}
	if c.Xid2 != "" && (c.Xid2 != c.Xid || c.Branch2 != c.BranchID) {
		other := seatasql.XaIdBuild(c.Xid2, c.Branch2)
		if other.String() == id.String() {
			return pt.Failf("C17/ident/collision", "(%q,%d) and (%q,%d) both give %q", c.Xid, c.BranchID, c.Xid2, c.Branch2, id.String())
		}
	}
	return nil
}

// ---- scenarios -------------------------------------------------------------------------------

func texts(names []string, br gen.Branch) []atenv.StmtText {
	var out []atenv.StmtText
	for _, s := range br.Stmts {
		out = append(out, atenv.StmtText{SQL: s.Text(names), Args: s.GoArgs(), Query: s.Kind == "select" || s.Kind == "select_for_update"})
	}
	return out
}

var reXA = regexp.MustCompile(`(?i)^XA\s+(START|END|PREPARE|COMMIT|ROLLBACK)\s+'([^']*)'`)

type xaCmd struct {
	seq  int64
	conn int
	verb string
	xid  string
	err  string
}

type run struct {
	names        []string
	d0           map[string][]string
	expected     map[string][]string // tables after the same statements through the bare driver
	res          atenv.BranchResult
	journal      []memsql.Entry
	final        map[string][]string
	branches     []*faketc.Branch
	status       map[int64]branch.BranchStatus
	fired        bool
	faultSeq     int64
	cbErr        bool
	left         map[string]string
	retried      bool              // a failed phase-two request was delivered a second time
	leftPhaseOne map[string]string // XA branches the engine holds when phase one has returned
	phase2       int64             // clock when phase two began
}

func isCounted(e *memsql.Entry) bool {
	if e.Kind == "CONNECT" || e.Kind == "CLOSE" {
		return false
	}
	u := e.Upper()
	return !strings.Contains(u, "INFORMATION_SCHEMA") && !strings.HasPrefix(u, "SELECT VERSION")
}

func clearKeeper() {
	datasource.GetDataSourceManager(branch.BranchTypeXA).GetCachedResources().Range(func(k, v any) bool {
		if r, ok := v.(*seatasql.DBResource); ok {
			r.GetKeeper().Range(func(kk, vv any) bool {
				r.GetKeeper().Delete(kk)
				return true
			})
		}
		return true
	})
}

func execute(c Case, plan string) (*run, *pt.Failure) {
	env.ResetCase()
	clearKeeper()
	n := atenv.NextCase()
	r := &run{status: map[int64]branch.BranchStatus{}}
	create := func() *pt.Failure {
		for i, tb := range c.Tables {
			name := atenv.TableName(n, i)
			if _, err := env.Bare.Exec(tb.DDL(name)); err != nil {
				return pt.Failf("C17/harness/setup", "%v", err)
			}
			if q := tb.InsertRows(name); q != "" {
				if _, err := env.Bare.Exec(q); err != nil {
					return pt.Failf("C17/harness/setup", "%v: %s", err, q)
				}
			}
		}
		return nil
	}
	for i := range c.Tables {
		r.names = append(r.names, atenv.TableName(n, i))
	}
	defer env.DropTables(r.names)
	// reference: the same statements through the bare driver
	if fl := create(); fl != nil {
		return nil, fl
	}
	r.d0 = env.Srv.Snapshot(atenv.Schema, r.names...)
	ref := atenv.RunBranch(context.Background(), env.Bare, c.Branch.Mode, c.Branch.Via, false, texts(r.names, c.Branch))
	r.expected = env.Srv.Snapshot(atenv.Schema, r.names...)
	refFailed := ref.Failed()
	if os.Getenv("VERIF_DEBUG") != "" {
		fmt.Printf("DEBUG reference run: %+v\n%s\n", ref, atenv.Tail(env.Srv.Journal(), 12))
	}
	env.DropTables(r.names)
	if fl := create(); fl != nil {
		return nil, fl
	}
	env.Srv.ResetJournal()
	env.TC.Reset()
	var f *memsql.Fault
	var k int
	switch {
	case strings.HasPrefix(plan, "db:") || strings.HasPrefix(plan, "drop:"):
		fmt.Sscanf(plan[strings.Index(plan, ":")+1:], "%d", &k)
		count := 0
		f = &memsql.Fault{DropConn: strings.HasPrefix(plan, "drop:"), Match: func(e *memsql.Entry) bool {
			if !isCounted(e) {
				return false
			}
			count++
			if count == k {
				r.faultSeq = e.Seq
			}
			return count == k
		}}
		env.Srv.AddFault(f)
	case plan == "register-fail":
		env.TC.Script(message.MessageTypeBranchRegister, faketc.Action{Kind: faketc.Fail, Msg: "refused"})
	case plan == "register-transport":
		env.TC.Script(message.MessageTypeBranchRegister, faketc.Action{Kind: faketc.TransportError})
	}
	outlives := c.Outlives && plan == "none" && c.Branch.Mode == "tx"
	if outlives {
		defer seatasql.SetXaBranchExecutionTimeoutForVerif(seatasql.SetXaBranchExecutionTimeoutForVerif(30 * time.Millisecond))
	}
	_, gerr := atenv.Global("c17", func(cx context.Context) error {
		stmts := texts(r.names, c.Branch)
		r.res = atenv.RunBranchOpt(cx, env.XA, atenv.BranchOpts{Mode: c.Branch.Mode, Via: c.Branch.Via, StmtBg: c.StmtBg && c.Branch.Mode == "tx", KeepGoing: c.KeepGoing && c.Branch.Mode == "tx", Probe: func(i int, _ atenv.StmtResult) {
			if outlives && i == len(stmts)-1 {
				time.Sleep(60 * time.Millisecond)
			}
		}}, stmts)
		if c.KeepGoing && c.Branch.Mode == "tx" {
			if r.res.BeginErr != "" || r.res.CommitErr != "" {
				return errors.New("business failed: " + r.res.FirstErr())
			}
		} else if r.res.Failed() {
			return errors.New("business failed: " + r.res.FirstErr())
		}
		if c.Decision == "rollback" {
			return errors.New("business decides to roll back")
		}
		return nil
	})
	r.cbErr = gerr != nil
	// phase two, as the coordinator would drive it
	r.leftPhaseOne = unquoted(env.Srv.XABranches())
	r.phase2 = jclock.Tick()
	r.branches = env.TC.Branches()
	if c.Target == "fresh" {
		clearKeeper()
	}
	for i := len(r.branches) - 1; i >= 0; i-- {
		b := r.branches[i]
		if b.Type != branch.BranchTypeXA {
			continue
		}
		if r.cbErr {
			st, _ := env.TC.BranchRollback(env.Sess, b, 5*time.Second)
			r.status[b.ID] = st
		} else {
			st, _ := env.TC.BranchCommit(env.Sess, b, 5*time.Second)
			r.status[b.ID] = st
		}
	}
	// the injected failure may hit a command of phase two as well (XA COMMIT / XA ROLLBACK are XA commands)
	env.Srv.ClearFaults()
	if f != nil {
		r.fired = f.Fired() > 0
	} else {
		r.fired = true
	}
	// a phase-two request that was not answered with success is delivered again (the coordinator retries)
	if f != nil && r.fired && (strings.HasPrefix(plan, "db:")) {
		for i := len(r.branches) - 1; i >= 0; i-- {
			b := r.branches[i]
			if b.Type != branch.BranchTypeXA {
				continue
			}
			st, delivered := r.status[b.ID]
			if !delivered || st == branch.BranchStatusPhasetwoCommitted || st == branch.BranchStatusPhasetwoRollbacked {
				continue
			}
			if r.faultSeq < r.phase2 {
				continue // the failure belonged to phase one: nothing to retry in phase two
			}
			r.retried = true
			if r.cbErr {
				st, _ = env.TC.BranchRollback(env.Sess, b, 5*time.Second)
			} else {
				st, _ = env.TC.BranchCommit(env.Sess, b, 5*time.Second)
			}
			r.status[b.ID] = st
		}
	}
	time.Sleep(time.Millisecond)
	r.journal = env.Srv.Journal()
	r.final = env.Srv.Snapshot(atenv.Schema, r.names...)
	r.left = unquoted(env.Srv.XABranches())
	_ = refFailed
	return r, nil
}

var last struct {
	prepared  bool
	faultAtXA bool
}

func judge(c Case, plan string, r *run) *pt.Failure {
	info := func() string {
		var sb strings.Builder
		fmt.Fprintf(&sb, "server %s plan=%s mode=%s/%s decision=%s target=%s; caller saw %+v (callback error=%v); phase-two answers %v\n", version, plan, c.Branch.Mode, c.Branch.Via, c.Decision, c.Target, r.res, r.cbErr, r.status)
		for _, s := range texts(r.names, c.Branch) {
			fmt.Fprintf(&sb, "  stmt: %s %v\n", s.SQL, s.Args)
		}
		for _, b := range r.branches {
			fmt.Fprintf(&sb, "  branch %d of %s registered at #%d\n", b.ID, b.Xid, b.RegSeq)
		}
		sb.WriteString(atenv.Tail(r.journal, 40))
		return sb.String()
	}
	sig := func(s string) string { return "C17/" + s + "/" + c.Branch.Mode + "/" + planClass(plan) }
	if os.Getenv("VERIF_DEBUG") != "" {
		fmt.Printf("DEBUG judge: left after phase one %v, fired=%v faultSeq=%d\n%s\n", r.leftPhaseOne, r.fired, r.faultSeq, info())
	}
	for _, st := range r.res.Stmts {
		if strings.HasPrefix(st.Err, "PANIC") {
			return pt.Failf(sig("panic"), "a statement panicked in the caller's goroutine: %s\n%s", st.Err, info())
		}
	}
	if strings.HasPrefix(r.res.CommitErr, "PANIC") || strings.HasPrefix(r.res.BeginErr, "PANIC") {
		return pt.Failf(sig("panic"), "BeginTx / Commit panicked in the caller's goroutine: %s %s\n%s", r.res.BeginErr, r.res.CommitErr, info())
	}
	// XA commands by identifier
	cmds := map[string][]xaCmd{}
	var order []string
	for _, e := range r.journal {
		m := reXA.FindStringSubmatch(strings.TrimSpace(e.Query))
		if m == nil {
			continue
		}
		x := m[2]
		if _, ok := cmds[x]; !ok {
			order = append(order, x)
		}
		cmds[x] = append(cmds[x], xaCmd{seq: e.Seq, conn: e.Conn, verb: strings.ToUpper(m[1]), xid: x, err: e.Err})
	}
	byIdent := map[string]*faketc.Branch{}
	for _, b := range r.branches {
		if b.Type == branch.BranchTypeXA {
			byIdent[fmt.Sprintf("%s-%d", b.Xid, b.ID)] = b
		}
	}
	anyPrepared := false
	committed := map[string]bool{}
	rolledBack := map[string]bool{}
	rolledBackInPhaseTwo := map[string]bool{}
	for _, x := range order {
		b := byIdent[x]
		if b == nil {
			return pt.Failf(sig("identifier-not-of-a-registered-branch"), "XA commands use %q, which is not <xid>-<branch id> of any branch the coordinator registered\n%s", x, info())
		}
		state := "NONE"
		finishers := 0
		for _, cm := range cmds[x] {
			if cm.verb == "START" && cm.seq < b.RegSeq {
				return pt.Failf(sig("start-before-register"), "XA START %q (#%d) precedes the register reply (#%d)\n%s", x, cm.seq, b.RegSeq, info())
			}
			if cm.err != "" {
				continue
			}
			next := ""
			switch {
			case cm.verb == "START" && state == "NONE":
				next = "ACTIVE"
			case cm.verb == "END" && state == "ACTIVE":
				next = "IDLE"
			case cm.verb == "PREPARE" && state == "IDLE":
				next = "PREPARED"
				anyPrepared = true
			case cm.verb == "COMMIT" && state == "PREPARED":
				next = "DONE"
				finishers++
				committed[x] = true
			case cm.verb == "ROLLBACK" && (state == "PREPARED" || state == "IDLE"):
				next = "DONE"
				finishers++
				rolledBack[x] = true
				if cm.seq > r.phase2 {
					rolledBackInPhaseTwo[x] = true
				}
			}
			if next == "" {
				return pt.Failf(sig("illegal-xa-sequence"), "XA %s %q succeeded in state %s\n%s", cm.verb, x, state, info())
			}
			state = next
		}
		if finishers > 1 {
			return pt.Failf(sig("two-finishers"), "%q finished twice\n%s", x, info())
		}
	}
	last.prepared = anyPrepared
	// business statements of the proxied run execute inside an ACTIVE branch on the same connection
	active := map[int]string{}
	for _, e := range r.journal {
		if m := reXA.FindStringSubmatch(strings.TrimSpace(e.Query)); m != nil {
			if e.Err == "" {
				switch strings.ToUpper(m[1]) {
				case "START":
					active[e.Conn] = m[2]
				case "END":
					delete(active, e.Conn)
				}
			}
			continue
		}
		if len(e.Writes) > 0 && e.Err == "" && active[e.Conn] == "" {
			return pt.Failf(sig("write-outside-xa-branch"), "a business statement wrote outside any XA branch: %s\n%s", e.String(), info())
		}
	}
	failedBeforePrepare := r.fired && plan != "none" && !prepareSucceededBefore(r, cmds)
	if plan != "none" && r.fired && failedBeforePrepare {
		if !r.res.Failed() {
			return pt.Failf(sig("failure-before-prepare-not-reported"), "a failure was injected before a successful XA PREPARE, yet the caller saw no error\n%s", info())
		}
		for x := range committed {
			return pt.Failf(sig("commit-after-failed-phase-one"), "%q was committed although phase one failed\n%s", x, info())
		}
	}
	// "any failure before a successful prepare rolls the branch back": when the caller has its error, the
	// database holds no unprepared branch any more (judged when the injected failure is the first thing that
	// went wrong, so that the clean-up itself ran unhindered)
	if c.Outlives && plan == "none" && c.Branch.Mode == "tx" {
		// the branch outlived its execution timeout: the caller gets an error and the branch is rolled back
		if !r.res.Failed() {
			return pt.Failf(sig("timed-out-branch-not-reported"), "the branch outlived its execution timeout, the caller saw no error\n%s", info())
		}
		for x, st := range r.leftPhaseOne {
			if st != "PREPARED" && byIdent[x] != nil {
				return pt.Failf(sig("failed-branch-not-rolled-back"), "the branch outlived its execution timeout and phase one returned, the database still holds %q in state %s\n%s", x, st, info())
			}
		}
		for x := range committed {
			return pt.Failf(sig("commit-after-failed-phase-one"), "%q was committed although its branch had timed out\n%s", x, info())
		}
	}
	if strings.HasPrefix(plan, "db:") && r.fired && failedBeforePrepare {
		first := true
		for _, e := range r.journal {
			if e.Err != "" && e.Seq < r.faultSeq && isCounted(&e) {
				first = false
			}
		}
		if first {
			for x, st := range r.leftPhaseOne {
				if st != "PREPARED" && byIdent[x] != nil {
					return pt.Failf(sig("failed-branch-not-rolled-back"), "phase one failed before XA PREPARE and returned, the database still holds %q in state %s\n%s", x, st, info())
				}
			}
		}
	}
	// outcome
	switch {
	case r.cbErr:
		if d := atenv.DiffSnap(r.d0, r.final); d != "" && !strings.HasPrefix(plan, "drop:") {
			return pt.Failf(sig("rollback-left-changes"), "the global transaction was rolled back, the tables changed:\n%s\n%s", d, info())
		}
		for x := range committed {
			return pt.Failf(sig("commit-in-rolled-back-global"), "%q was committed although the global transaction rolled back\n%s", x, info())
		}
	default:
		allCommitted := true
		for _, b := range r.branches {
			if b.Type == branch.BranchTypeXA && r.status[b.ID] != branch.BranchStatusPhasetwoCommitted {
				allCommitted = false
			}
		}
		inherent := c.Target == "fresh" && !detaches(version)
		if !allCommitted && plan == "none" && !inherent {
			return pt.Failf(sig("commit-not-performed"), "the global transaction committed, a prepared branch was not committed in phase two (answers %v)\n%s", r.status, info())
		}
		if !allCommitted && inherent {
			// before MySQL 8.0.29 a prepared branch stays attached to its live session: a process that never
			// saw phase one cannot finish it, and says so
			ctx.Rec.Label("inherent:fresh-process-on-old-server", 1)
		}
		if d := atenv.DiffSnap(r.expected, r.final); d != "" && allCommitted {
			return pt.Failf(sig("commit-lost-or-partial"), "the global transaction committed and every branch answered Committed, the tables differ from the plain driver's result:\n%s\n%s", d, info())
		}
	}
	for _, b := range r.branches {
		if b.Type != branch.BranchTypeXA {
			continue
		}
		x := fmt.Sprintf("%s-%d", b.Xid, b.ID)
		st := r.status[b.ID]
		if st == branch.BranchStatusPhasetwoCommitted && !committed[x] {
			return pt.Failf(sig("reported-committed-without-commit"), "branch %d answered PhaseTwo_Committed, the database never committed %q\n%s", b.ID, x, info())
		}
		if !r.cbErr && committed[x] && st != branch.BranchStatusPhasetwoCommitted {
			return pt.Failf(sig("commit-not-reported"), "%q was committed, the answer was %v\n%s", x, st, info())
		}
		if r.cbErr && rolledBackInPhaseTwo[x] && st != branch.BranchStatusPhasetwoRollbacked {
			return pt.Failf(sig("rollback-not-reported"), "%q was rolled back, the answer was %v\n%s", x, st, info())
		}
		if st == branch.BranchStatusPhasetwoRollbacked && state(r.left, x) != "" {
			return pt.Failf(sig("reported-rollbacked-branch-still-there"), "branch %d answered PhaseTwo_Rollbacked, the database still holds %q in state %s\n%s", b.ID, x, r.left[x], info())
		}
	}
	if plan == "none" && len(r.left) > 0 && c.Target == "holder" {
		return pt.Failf(sig("branch-left-behind"), "after phase two the database still holds XA branches %v\n%s", r.left, info())
	}
	return nil
}

func state(m map[string]string, x string) string { return m[x] }

// detaches: from 8.0.29 on a prepared branch can be finished by any session.
func detaches(v string) bool {
	var a, b, c int
	fmt.Sscanf(v, "%d.%d.%d", &a, &b, &c)
	return a > 8 || (a == 8 && (b > 0 || c >= 29))
}

// unquoted strips the quotes the engine keeps around XA identifiers.
func unquoted(m map[string]string) map[string]string {
	out := map[string]string{}
	for k, v := range m {
		out[strings.Trim(k, "'`\"")] = v
	}
	return out
}

func prepareSucceededBefore(r *run, cmds map[string][]xaCmd) bool {
	for _, cs := range cmds {
		for _, cm := range cs {
			if cm.verb == "PREPARE" && cm.err == "" && cm.seq < r.faultSeq {
				return true
			}
		}
	}
	return false
}

func planClass(p string) string {
	if i := strings.Index(p, ":"); i >= 0 {
		return p[:i]
	}
	return p
}

func runScenario(c Case) *pt.Failure {
	if c.Plan != "" {
		r, fl := execute(c, c.Plan)
		if fl != nil {
			return fl
		}
		return judge(c, c.Plan, r)
	}
	if c.Outlives {
		r, fl := execute(c, "none")
		if fl != nil {
			return fl
		}
		return judge(c, "none", r)
	}
	base, fl := execute(c, "none")
	if fl != nil {
		return fl
	}
	if fl := judge(c, "none", base); fl != nil {
		return fl
	}
	nStmts := 0
	for i := range base.journal {
		if isCounted(&base.journal[i]) {
			nStmts++
		}
	}
	plans := []string{"register-fail", "register-transport"}
	for k := 1; k <= nStmts; k++ {
		plans = append(plans, fmt.Sprintf("db:%d", k))
	}
	for k := 1; k <= nStmts; k += 2 {
		plans = append(plans, fmt.Sprintf("drop:%d", k))
	}
	for _, p := range plans {
		r, fl := execute(c, p)
		if fl != nil {
			return fl
		}
		if !r.fired {
			continue
		}
		ctx.Rec.Label("plan:"+planClass(p), 1)
		if r.retried {
			ctx.Rec.Label("phase-two-redelivered", 1)
		}
		if fl := judge(c, p, r); fl != nil {
			fl.Detail = "(plan " + p + ") " + fl.Detail
			planFailed = p
			return fl
		}
	}
	return nil
}

var planFailed string

func runCase(c Case) *pt.Failure {
	return pt.Guard("C17/crash", func() *pt.Failure {
		if c.Kind == "ident" {
			return runIdent(c)
		}
		return runScenario(c)
	})
}

var once sync.Once

func TestMain(m *testing.M) {
	version = "8.0.30"
	if sh := os.Getenv("VERIF_SHARD"); sh != "" {
		// server profiles by shard: prepared branches detach from their session from 8.0.29 on; the version
		// text may carry a build suffix
		version = []string{"8.0.30", "5.7.30", "8.0.28-debug", "5.7.44-log"}[int(sh[len(sh)-1]-'0')%4]
	}
	if v := pt.ReplayCaseString("server"); v != "" {
		version = v
	}
	if v := os.Getenv("C17_VERSION"); v != "" {
		version = v
	}
	ctx.ProcessFields = map[string]string{"server": version}
	env = atenv.Get(atenv.Options{XA: true, Version: version})
	env.Srv.SetLockWait(200 * time.Millisecond)
	ctx.Rec.SetRule("(1) identifiers: xids (ip:port:id shapes, printable tokens with '-' ':' '_' digits, up to 64 bytes) × branch ids (boundary-biased uint64): XaIdBuild(x,b).String()==x-b, accessors, byte-form round trip, distinct pairs ⇒ distinct identifiers. (2) scenarios: 1–3 statements (INSERT/UPDATE/DELETE/upsert/SELECT) through the XA proxy inside a global transaction, autocommit or explicit transaction, db or pinned Conn, business decision commit/rollback, phase two delivered by the coordinator to the process holding the connection or after clearing the resource's keeper map (a process that never saw phase one); server profiles by shard: 8.0.30 (prepared branches detach), 5.7.30, 8.0.28-debug and 5.7.44-log (version texts with a build suffix); fault enumeration: an error, and for every second position a dropped connection, injected at every XA command and business statement of the fault-free run, register refusal and transport error. Oracle: an automaton over the engine's XA command journal accepts only START·END·PREPARE·(COMMIT|ROLLBACK) / START·END·ROLLBACK prefixes per identifier with ≤1 finisher; the identifier equals <xid>-<branch id from the register reply>; the reply precedes XA START on the logical clock; every write happens inside an ACTIVE branch; failure before a successful PREPARE ⇒ caller error and no COMMIT; committed global ⇒ tables equal the plain driver's result, rolled-back global ⇒ tables unchanged; phase-two answers agree with what the database did; no branch left behind. Non-trivial: a scenario that reached PREPARE or had a fault at an XA command. Distinct by (mode, statement kinds, decision, target, server).")
	ctx.Rec.Assume("memsql's XA state machine (incl. the 8.0.29 detach-on-prepare rule) stands for MySQL's", "the coordinator delivers phase two once per branch, after the global decision")
	ctx.RunWitnesses(func(f stats.Finding) *pt.Failure {
		var c Case
		if err := json.Unmarshal(f.Witness, &c); err != nil {
			return nil
		}
		return runCase(c)
	})
	ctx.Main(m)
}

func TestPropIdentifiers(t *testing.T) {
	xidGen := rapid.OneOf(
		rapid.Custom(func(t *rapid.T) string {
			return fmt.Sprintf("%d.%d.%d.%d:%d:%d", rapid.IntRange(0, 255).Draw(t, "a"), rapid.IntRange(0, 255).Draw(t, "b"), rapid.IntRange(0, 255).Draw(t, "c"), rapid.IntRange(0, 255).Draw(t, "d"), rapid.IntRange(1, 65535).Draw(t, "port"), rapid.Int64Range(1, 1<<62).Draw(t, "id"))
		}),
		rapid.StringMatching(`[A-Za-z0-9:_.\-]{1,40}`),
		// coordinator addresses given as DNS names or IPv6 literals make long xids
		rapid.Custom(func(t *rapid.T) string {
			return fmt.Sprintf("%s.svc.cluster.local:%d:%d", rapid.StringMatching(`[a-z]{20,60}`).Draw(t, "host"), rapid.IntRange(1, 65535).Draw(t, "port"), rapid.Int64Range(1, 1<<62).Draw(t, "id"))
		}),
	)
	idGen := rapid.OneOf(rapid.Uint64(), rapid.SampledFrom([]uint64{1, 9, 10, 1<<63 - 1, 1 << 63, 1<<64 - 1, 5001}))
	ctx.Check(t, func(rt *rapid.T) {
		c := Case{Kind: "ident", Xid: xidGen.Draw(rt, "xid"), BranchID: idGen.Draw(rt, "branch")}
		if rapid.Bool().Draw(rt, "pair") {
			// a near miss: move characters across the separator
			c.Xid2, c.Branch2 = c.Xid, idGen.Draw(rt, "branch2")
			if rapid.Bool().Draw(rt, "shift") {
				c.Xid2 = c.Xid + "-" + fmt.Sprint(rapid.IntRange(0, 99).Draw(rt, "d"))
			}
		}
		fl := runCase(c)
		ctx.Rec.Case("ident", true, fmt.Sprintf("%d|%d|%v", len(c.Xid), c.BranchID%7, c.Xid2 != ""), c, "kind:ident")
		ctx.Judge(rt, "ident", fl, c)
	})
}

func TestPropScenarios(t *testing.T) {
	ctx.Check(t, func(rt *rapid.T) {
		tables := []gen.TableSpec{gen.DrawTable(rt, 0)}
		br := gen.Branch{Mode: rapid.SampledFrom([]string{"auto", "auto", "tx"}).Draw(rt, "mode"), Via: rapid.SampledFrom([]string{"db", "conn"}).Draw(rt, "via")}
		ns := 1
		if br.Mode == "tx" || br.Via == "conn" {
			ns = rapid.IntRange(1, 3).Draw(rt, "nStmts")
		}
		for i := 0; i < ns; i++ {
			br.Stmts = append(br.Stmts, gen.DrawStmt(rt, tables, gen.StmtOptions{NoKeyAssignment: true, Kinds: []string{"insert", "update", "update", "delete", "upsert", "select"}}))
		}
		c := Case{Kind: "scenario", Tables: tables, Branch: br, Decision: rapid.SampledFrom([]string{"commit", "commit", "rollback"}).Draw(rt, "decision"),
			Target: rapid.SampledFrom([]string{"holder", "holder", "fresh"}).Draw(rt, "target"), Server: version}
		if br.Mode == "tx" && rapid.IntRange(0, 5).Draw(rt, "outlives") == 0 {
			c.Outlives = true
		}
		c.StmtBg = br.Mode == "tx" && rapid.IntRange(0, 3).Draw(rt, "stmtBg") == 0
		c.KeepGoing = br.Mode == "tx" && rapid.IntRange(0, 3).Draw(rt, "keepGoing") == 0
		planFailed = ""
		fl := runCase(c)
		if planFailed != "" {
			c.Plan = planFailed
		}
		var ks []string
		for _, s := range br.Stmts {
			ks = append(ks, s.Kind)
		}
		ctx.Rec.Case("scenario", last.prepared, fmt.Sprintf("%s|%s|%s|%s|%s|%s|%v", br.Mode, br.Via, strings.Join(ks, "+"), c.Decision, c.Target, version, c.Outlives), c, "kind:scenario", "mode:"+br.Mode, "target:"+c.Target, "server:"+version, fmt.Sprintf("outlives-timeout:%v", c.Outlives))
		ctx.Judge(rt, "scenario", fl, c)
	})
}

func TestPropReplaySaved(t *testing.T) {
	ctx.ReplayAll(t, func(v *stats.Violation) *pt.Failure {
		var c Case
		if err := json.Unmarshal(v.Case, &c); err != nil {
			return pt.Failf("C17/replay", "bad case: %v", err)
		}
		return runCase(c)
	})
}

func TestReplay(t *testing.T) {
	var c Case
	v, ok := pt.Replay(t, &c)
	if !ok {
		t.Skip("no VERIF_REPLAY_FILE")
	}
	defer ctx.Rec.Flush()
	fl := runCase(c)
	ctx.Rec.Case("replay", true, string(v.Case), c)
	ctx.Judge(t, v.Test, fl, c)
}

var _ = sort.Strings
