// C04 — each global transaction gets exactly one truthful decision from its initiator.
package c04

import (
	"context"
	"encoding/json"
	"errors"
	"fmt"
	"testing"
	"time"

	"pgregory.net/rapid"

	"seata.apache.org/seata-go/pkg/protocol/message"
	"seata.apache.org/seata-go/pkg/tm"

	"verifharness/boot"
	"verifharness/faketc"
	"verifharness/pt"
	"verifharness/stats"
)

var (
	ctx  = pt.New("C04")
	tc   *faketc.TC
	sess *faketc.Session
)

type Case struct {
	Outcome     string `json:"outcome"`      // nil | error | panic
	Role        string `json:"role"`         // initiator | participant
	CommitN     int    `json:"commit_retry"` // tm commit-retry-count
	RollbackN   int    `json:"rollback_retry"`
	Begin       string `json:"begin"` // ok | fail | transport
	Transport   int    `json:"second_phase_transport_errors"`
	Final       string `json:"second_phase_final"` // ok | fail | noreply
	Cancel      string `json:"cancel"`             // never | before-begin | in-callback | second-phase-first-request
	Propagation int    `json:"propagation"`        // 0 Required (default), 1 RequiresNew
	Reused      bool   `json:"reused,omitempty"`   // the caller's seata context already carried an earlier, finished global transaction
	Inner       string `json:"inner,omitempty"`    // "" | join: the callback runs a nested Required scope on the same context (a participant that sends nothing) | never: a nested Never scope, which refuses to start and sends nothing
}

type sentinel struct{ s string }

var (
	errBusiness = errors.New("business failed")
	panicValue  = &sentinel{"business panic value"}
)

type observed struct {
	Begins, Commits, Rollbacks int // attempts (including injected transport errors)
	AttemptAfterReply          bool
	Returned                   string // "nil" | "error" | "panic-original" | "panic-other" | "hang"
	Err                        string
	CallbackRan                bool
	XidSeen                    string
}

func execute(c Case) observed {
	tc.Reset()
	tm.InitTm(tm.TmConfig{CommitRetryCount: c.CommitN, RollbackRetryCount: c.RollbackN, DefaultGlobalTransactionTimeout: 60 * time.Second})
	cctx, cancel := context.WithCancel(context.Background())
	defer cancel()
	switch c.Begin {
	case "fail":
		tc.Script(message.MessageTypeGlobalBegin, faketc.Action{Kind: faketc.Fail, Msg: "begin refused"})
	case "transport":
		tc.Script(message.MessageTypeGlobalBegin, faketc.Action{Kind: faketc.TransportError})
	}
	var script []faketc.Action
	for i := 0; i < c.Transport; i++ {
		script = append(script, faketc.Action{Kind: faketc.TransportError})
	}
	switch c.Final {
	case "fail":
		script = append(script, faketc.Action{Kind: faketc.Fail, Msg: "second phase refused"})
	case "noreply":
		script = append(script, faketc.Action{Kind: faketc.NoReply})
	default:
		script = append(script, faketc.Action{})
	}
	if c.Cancel == "second-phase-first-request" {
		script[0].Before = func(message.RpcMessage) { cancel() }
	}
	tc.Script(message.MessageTypeGlobalCommit, script...)
	tc.Script(message.MessageTypeGlobalRollback, script...)

	var o observed
	base := context.Context(cctx)
	if c.Reused && c.Role != "participant" {
		// history on the caller's context: a first global transaction ran to completion on it
		base = tm.InitSeataContext(base)
		tc.Reset() // the earlier transaction meets a healthy coordinator
		_ = tm.WithGlobalTx(base, &tm.GtxConfig{Name: "c04-earlier"}, func(context.Context) error { return nil })
		tc.Reset()
		// (scripts are re-installed below)
		switch c.Begin {
		case "fail":
			tc.Script(message.MessageTypeGlobalBegin, faketc.Action{Kind: faketc.Fail, Msg: "begin refused"})
		case "transport":
			tc.Script(message.MessageTypeGlobalBegin, faketc.Action{Kind: faketc.TransportError})
		}
		tc.Script(message.MessageTypeGlobalCommit, script...)
		tc.Script(message.MessageTypeGlobalRollback, script...)
	}
	if c.Role == "participant" {
		base = tm.InitSeataContext(base)
		tm.SetXID(base, tc.Addr+":777")
	}
	if c.Cancel == "before-begin" {
		cancel()
	}
	done := make(chan struct{})
	go func() {
		defer close(done)
		defer func() {
			if r := recover(); r != nil {
				if r == interface{}(panicValue) {
					o.Returned = "panic-original"
				} else if e, ok := r.(error); ok && errors.Is(e, errBusiness) {
					o.Returned = "panic-original"
				} else {
					o.Returned = "panic-other"
					o.Err = fmt.Sprint(r)
				}
			}
		}()
		err := tm.WithGlobalTx(base, &tm.GtxConfig{Name: "c04", Propagation: tm.Propagation(c.Propagation)}, func(ctx context.Context) error {
			o.CallbackRan = true
			o.XidSeen = tm.GetXID(ctx)
			if c.Cancel == "in-callback" {
				cancel()
			}
			if c.Inner == "join" {
				// a nested scope that joins: it must not disturb the initiator's decision
				_ = tm.WithGlobalTx(ctx, &tm.GtxConfig{Name: "c04-inner"}, func(context.Context) error { return nil })
			}
			if c.Inner == "never" {
				// a nested scope that refuses to start (Never inside a transaction): its error is handled by the
				// callback, the initiator's own decision must still be sent
				_ = tm.WithGlobalTx(ctx, &tm.GtxConfig{Name: "c04-inner", Propagation: tm.Never}, func(context.Context) error { return nil })
			}
			switch c.Outcome {
			case "error":
				return errBusiness
			case "panic":
				panic(panicValue)
			}
			return nil
		})
		if err == nil {
			o.Returned = "nil"
		} else {
			o.Returned = "error"
			o.Err = err.Error()
		}
	}()
	limit := 30 * time.Second
	if c.Final == "noreply" {
		limit = 120 * time.Second
	}
	select {
	case <-done:
	case <-time.After(limit):
		o.Returned = "hang"
	}
	replied := false
	for _, e := range tc.Events() {
		if e.Dir != "c2s" && e.Dir != "err" {
			continue
		}
		switch e.Body.(type) {
		case message.GlobalBeginRequest:
			o.Begins++
		case message.GlobalCommitRequest:
			o.Commits++
			if replied {
				o.AttemptAfterReply = true
			}
			if e.Dir == "c2s" {
				replied = true
			}
		case message.GlobalRollbackRequest:
			o.Rollbacks++
			if replied {
				o.AttemptAfterReply = true
			}
			if e.Dir == "c2s" {
				replied = true
			}
		}
	}
	return o
}

// model is the reference written from the property statement.
type expectation struct {
	Begins            int
	Kind              string // "commit" | "rollback" | "none": the only second-phase request kind allowed
	Attempts          int    // exact number of attempts when not cancelled
	AckedCommit       bool   // the coordinator acknowledged a commit with success (if all attempts are made)
	MustRunCallback   bool
	MayNotRunCallback bool
}

func model(c Case) expectation {
	var e expectation
	if c.Role == "participant" {
		e.Kind = "none"
		e.MustRunCallback = true
		return e
	}
	e.Begins = 1
	if c.Begin != "ok" {
		e.Kind = "none"
		e.MayNotRunCallback = true
		return e
	}
	e.MustRunCallback = true
	n := c.RollbackN
	e.Kind = "rollback"
	if c.Outcome == "nil" {
		e.Kind = "commit"
		n = c.CommitN
	}
	if n == 0 || c.Transport+1 <= n {
		e.Attempts = c.Transport + 1
		e.AckedCommit = e.Kind == "commit" && c.Final == "ok"
	} else {
		e.Attempts = n
	}
	return e
}

func sig(c Case, what string) string {
	return fmt.Sprintf("C04/%s/outcome=%s/cancel=%s/final=%s", what, c.Outcome, c.Cancel, c.Final)
}

func judge(c Case, o observed) *pt.Failure {
	e := model(c)
	if o.Returned == "hang" {
		return pt.Failf(sig(c, "hang"), "WithGlobalTx did not return: %+v", o)
	}
	if o.Returned == "panic-other" {
		return pt.Failf(sig(c, "crash"), "WithGlobalTx crashed with a panic that is not the business panic: %s", o.Err)
	}
	if o.Begins != e.Begins {
		return pt.Failf(sig(c, "begin-count"), "begin requests: got %d want %d", o.Begins, e.Begins)
	}
	if e.MustRunCallback && !o.CallbackRan {
		return pt.Failf(sig(c, "callback-not-run"), "business callback did not run")
	}
	if !e.MustRunCallback && !e.MayNotRunCallback && o.CallbackRan {
		return pt.Failf(sig(c, "callback-ran"), "business callback ran although begin failed")
	}
	if c.Begin != "ok" && c.Role == "initiator" && o.CallbackRan {
		return pt.Failf(sig(c, "callback-ran-after-failed-begin"), "business callback ran although begin failed")
	}
	// never both, never the wrong kind, never for a participant
	switch e.Kind {
	case "none":
		if o.Commits+o.Rollbacks != 0 {
			return pt.Failf(sig(c, "unexpected-second-phase"), "second-phase requests sent where none is allowed: commits=%d rollbacks=%d", o.Commits, o.Rollbacks)
		}
	case "commit":
		if o.Rollbacks != 0 {
			return pt.Failf(sig(c, "wrong-decision"), "rollback requested after a successful business callback (commits=%d rollbacks=%d)", o.Commits, o.Rollbacks)
		}
	case "rollback":
		if o.Commits != 0 {
			return pt.Failf(sig(c, "wrong-decision"), "commit requested after a failed business callback (commits=%d rollbacks=%d)", o.Commits, o.Rollbacks)
		}
	}
	attempts := o.Commits + o.Rollbacks
	if o.AttemptAfterReply {
		return pt.Failf(sig(c, "retry-after-reply"), "a second-phase request was repeated although the previous one was answered")
	}
	cancelled := c.Cancel != "never"
	acked := e.AckedCommit
	if e.Kind != "none" {
		if !cancelled {
			if attempts != e.Attempts {
				return pt.Failf(sig(c, "attempts"), "second-phase attempts: got %d want %d (transport errors %d, retry count commit=%d rollback=%d)", attempts, e.Attempts, c.Transport, c.CommitN, c.RollbackN)
			}
		} else {
			// under cancellation fewer attempts are accepted, never more
			if attempts > e.Attempts {
				return pt.Failf(sig(c, "attempts"), "second-phase attempts: got %d, at most %d allowed", attempts, e.Attempts)
			}
			acked = acked && attempts == e.Attempts
		}
	}
	// a context cancelled before the second phase began always surfaces to the initiator's caller, whatever
	// was sent in spite of it
	if c.Role == "initiator" && (c.Cancel == "before-begin" || c.Cancel == "in-callback") && o.Returned == "nil" {
		return pt.Failf("C04/silent-success/cancellation-swallowed/cancel="+c.Cancel, "the caller's context was cancelled before the second phase, WithGlobalTx returned nil (commits=%d rollbacks=%d, retry count commit=%d rollback=%d)", o.Commits, o.Rollbacks, c.CommitN, c.RollbackN)
	}
	// truthfulness of the return value
	wantNil := c.Outcome == "nil" && ((c.Role == "participant") || (c.Begin == "ok" && acked))
	switch {
	case o.Returned == "nil" && !wantNil:
		what := "C04/silent-success/"
		switch {
		case c.Outcome == "panic":
			what += "business-panic"
		case c.Outcome == "error":
			what += "business-error"
		case c.Begin != "ok":
			what += "begin-failed"
		case o.Commits == 0:
			what += "commit-never-sent/cancel=" + c.Cancel
		case c.Final == "fail" && attempts == e.Attempts && e.Attempts == c.Transport+1:
			what += "commit-failure-result-ignored"
		default:
			what += "commit-not-acknowledged/cancel=" + c.Cancel
		}
		return pt.Failf(what, "WithGlobalTx returned nil but: outcome=%s begin=%s commit acknowledged=%v (commits=%d rollbacks=%d)", c.Outcome, c.Begin, acked, o.Commits, o.Rollbacks)
	case o.Returned != "nil" && wantNil && !cancelled:
		return pt.Failf(sig(c, "spurious-error"), "business succeeded and commit was acknowledged, but WithGlobalTx returned %s %s", o.Returned, o.Err)
	case o.Returned == "panic-original" && c.Outcome != "panic":
		return pt.Failf(sig(c, "crash"), "panic without a business panic")
	}
	if c.Role == "participant" && o.XidSeen != tc.Addr+":777" {
		return pt.Failf(sig(c, "participant-xid"), "participant callback saw xid %q", o.XidSeen)
	}
	return nil
}

func runCase(c Case) *pt.Failure {
	return pt.Guard("C04/harness", func() *pt.Failure { return judge(c, execute(c)) })
}

func TestMain(m *testing.M) {
	boot.Init("")
	tc = faketc.New("")
	sess = tc.Open()
	if !tc.WaitRegistered(sess, 5*time.Second) {
		panic("client did not register as TM on the fake session")
	}
	ctx.Rec.SetRule("generator: callback outcome {nil,error,panic} × role {initiator, participant (context already carries an xid)} × commit/rollback retry counts {0..3} × begin reaction {ok, failure result, transport error} × second phase = k transport errors (k ≤ 3) then {ok, failure result} (thorough also: no reply, 20 s) × context cancellation {never, before begin, inside the callback, when the coordinator receives the first second-phase request}. Oracle: reference model of the statement (expected request kinds/counts per xid, truthful return). Non-trivial: any fault, non-nil outcome or cancellation. Distinct by the whole tuple.")
	ctx.Rec.Assume("coordinator as modelled by faketc; the real backoff sleeps (100–200 ms per retry) are not replaced", "under cancellation only the weak reading is enforced: never the wrong/both decisions, never more attempts, nil only if the commit was acknowledged")
	ctx.RunWitnesses(func(f stats.Finding) *pt.Failure {
		var c Case
		if err := json.Unmarshal(f.Witness, &c); err != nil {
			return nil
		}
		return runCase(c)
	})
	ctx.Main(m)
}

func drawCase(t *rapid.T) Case {
	c := Case{
		Outcome:   rapid.SampledFrom([]string{"nil", "nil", "error", "panic"}).Draw(t, "outcome"),
		Role:      rapid.SampledFrom([]string{"initiator", "initiator", "initiator", "participant"}).Draw(t, "role"),
		CommitN:   rapid.IntRange(0, 3).Draw(t, "commitRetry"),
		RollbackN: rapid.IntRange(0, 3).Draw(t, "rollbackRetry"),
		Begin:     rapid.SampledFrom([]string{"ok", "ok", "ok", "ok", "fail", "transport"}).Draw(t, "begin"),
		Transport: rapid.SampledFrom([]int{0, 0, 0, 1, 1, 2, 3}).Draw(t, "transportErrors"),
		Final:     rapid.SampledFrom([]string{"ok", "ok", "fail"}).Draw(t, "final"),
		Cancel:    rapid.SampledFrom([]string{"never", "never", "never", "before-begin", "in-callback", "second-phase-first-request"}).Draw(t, "cancel"),
	}
	switch rapid.IntRange(0, 5).Draw(t, "inner") {
	case 0:
		c.Inner = "join"
	case 1:
		c.Inner = "never"
	}
	c.Reused = rapid.IntRange(0, 3).Draw(t, "reused") == 0
	return c
}

func record(test string, c Case) {
	nt := c.Outcome != "nil" || c.Begin != "ok" || c.Transport > 0 || c.Final != "ok" || c.Cancel != "never" || c.Inner != ""
	b, _ := json.Marshal(c)
	ctx.Rec.Case(test, nt, string(b), c, "outcome:"+c.Outcome, "role:"+c.Role, "begin:"+c.Begin, "final:"+c.Final, "cancel:"+c.Cancel, "inner:"+c.Inner, fmt.Sprintf("reused:%v", c.Reused), fmt.Sprintf("transport-errors:%d", c.Transport))
}

func TestPropDecision(t *testing.T) {
	ctx.Check(t, func(rt *rapid.T) {
		c := drawCase(rt)
		record("decision", c)
		ctx.Judge(rt, "decision", runCase(c), c)
	})
}

// TestPropNoReply: the coordinator never answers the second phase (thorough tier only: 20 s per attempt).
func TestPropNoReply(t *testing.T) {
	if !stats.Thorough() {
		t.Skip("thorough only")
	}
	defer ctx.Rec.Flush()
	for _, outcome := range []string{"nil", "error"} {
		c := Case{Outcome: outcome, Role: "initiator", CommitN: 1, RollbackN: 1, Begin: "ok", Final: "noreply", Cancel: "never"}
		record("noreply", c)
		o := execute(c)
		var fl *pt.Failure
		if o.Returned == "nil" || o.Returned == "hang" || o.Returned == "panic-other" {
			fl = pt.Failf(sig(c, "noreply"), "no reply to the second phase, WithGlobalTx returned %s: %+v", o.Returned, o)
		}
		ctx.Judge(t, "noreply", fl, c)
	}
}

func TestPropReplaySaved(t *testing.T) {
	ctx.ReplayAll(t, func(v *stats.Violation) *pt.Failure {
		var c Case
		if err := json.Unmarshal(v.Case, &c); err != nil {
			return pt.Failf("C04/replay", "bad case: %v", err)
		}
		return runCase(c)
	})
}

func TestReplay(t *testing.T) {
	var c Case
	v, ok := pt.Replay(t, &c)
	if !ok {
		t.Skip("no VERIF_REPLAY_FILE")
	}
	defer ctx.Rec.Flush()
	record("replay", c)
	ctx.Judge(t, v.Test, runCase(c), c)
}
