// C13 — frame reader survives any fragmentation of the byte stream.
package c13

import (
	"encoding/json"
	"fmt"
	"os"
	"reflect"
	"sort"
	"strconv"
	"strings"
	"testing"

	"pgregory.net/rapid"

	"seata.apache.org/seata-go/pkg/protocol/codec"
	"seata.apache.org/seata-go/pkg/protocol/message"
	sgetty "seata.apache.org/seata-go/pkg/remoting/getty"

	"verifharness/gen"
	"verifharness/pt"
	"verifharness/refwire"
	"verifharness/stats"
)

var ctx = pt.New("C13")

// maxMsgLen is the session limit getty applies to the length a reader reports (seata-go's default
// getty.session.max-msg-len).
const maxMsgLen = 16498688

type Msg struct {
	ID         int32             `json:"id"`
	Type       byte              `json:"type"` // 0 sync request, 1 response, 2 one-way, 3 ping, 4 pong
	Compressor byte              `json:"compressor"`
	HeadMap    map[string]string `json:"head_map,omitempty"`
	BodyCode   int               `json:"body_code,omitempty"`
	Body       json.RawMessage   `json:"body,omitempty"`
	RefFramer  bool              `json:"ref_framer"` // bytes produced by refwire instead of the real Write
}

type Case struct {
	Kind string `json:"kind"` // valid | garbage | corrupt
	Msgs []Msg  `json:"msgs,omitempty"`
	Cuts []int  `json:"cuts"` // cut offsets into the concatenated stream (strictly increasing, inside (0,len))
	// garbage: Raw is fed as is. corrupt: the valid stream with byte CorruptAt xor-ed with CorruptXor.
	Raw        []byte `json:"raw,omitempty"`
	CorruptAt  int    `json:"corrupt_at,omitempty"`
	CorruptXor byte   `json:"corrupt_xor,omitempty"`
	// AbandonAt k>0 (valid streams): before this stream the handler (one instance per process, shared by all
	// sessions as in the client) read the first k bytes of a longer frame on a connection that then died
	AbandonAt int `json:"abandon_at,omitempty"`
}

// sharedHandler: the client has one package handler for all sessions; so has the harness.
var sharedHandler = &sgetty.RpcPackageHandler{}

// abandonedFrame is a frame longer than any generated one (its body carries a 400-byte lock key).
func abandonedFrame(h *sgetty.RpcPackageHandler) []byte {
	b, err := h.Write(nil, message.RpcMessage{ID: 77, Type: message.GettyRequestTypeRequestSync, Codec: 1, Body: message.BranchRegisterRequest{Xid: "10.0.0.1:8091:1", ResourceId: "r", LockKey: strings.Repeat("k", 400)}})
	if err != nil {
		panic(err)
	}
	return b
}

func (m Msg) body() interface{} {
	if m.Type == 3 || m.Type == 4 || m.BodyCode == 0 {
		return nil
	}
	e := refwire.ByCode(m.BodyCode)
	p := reflect.New(reflect.TypeOf(e.Zero))
	if err := json.Unmarshal(m.Body, p.Interface()); err != nil {
		panic(err)
	}
	return p.Elem().Interface()
}

func (m Msg) rpc() message.RpcMessage {
	r := message.RpcMessage{ID: m.ID, Type: message.GettyRequestType(m.Type), Codec: 1, Compressor: m.Compressor, HeadMap: m.HeadMap, Body: m.body()}
	switch m.Type {
	case 3:
		r.Body = message.HeartBeatMessagePing
	case 4:
		r.Body = message.HeartBeatMessagePong
	}
	return r
}

func (m Msg) frame(h *sgetty.RpcPackageHandler) ([]byte, error) {
	if m.RefFramer {
		f := refwire.Frame{ID: m.ID, Type: m.Type, Codec: 1, Compressor: m.Compressor, HeadMap: m.HeadMap}
		if b := m.body(); b != nil {
			f.Body = refwire.EncodeBody(b)
		}
		return refwire.EncodeFrame(f), nil
	}
	return h.Write(nil, m.rpc())
}

type delivery struct {
	msg      message.RpcMessage
	pkgLen   int
	fedSoFar int
}

type loopOut struct {
	deliveries []delivery
	err        error
	spin       bool
	left       int
	overrun    bool // reader asked to consume more than was buffered
}

// feed is a transcription of the inner loop of getty 1.5.0 (*session).handleTCPPackage: after each
// network read the reader is called on the whole unconsumed buffer until it asks for more data.
func feed(h *sgetty.RpcPackageHandler, chunks [][]byte) (out loopOut) {
	var buf []byte
	fed := 0
	for _, c := range chunks {
		if len(c) == 0 {
			continue // bufLen == 0: getty does not call the reader
		}
		buf = append(buf, c...)
		fed += len(c)
		iter := 0
		for len(buf) > 0 {
			pkg, n, err := h.Read(nil, buf)
			if err == nil && n > maxMsgLen {
				err = fmt.Errorf("pkgLen %d > session max message len %d", n, maxMsgLen)
			}
			if err != nil {
				out.err = err
				out.left = len(buf)
				return // session ends
			}
			if pkg == nil {
				break
			}
			rm, _ := pkg.(message.RpcMessage)
			out.deliveries = append(out.deliveries, delivery{rm, n, fed})
			if n <= 0 {
				out.spin = true // pktBuf.Next(0) consumes nothing: the loop would deliver this package forever
				out.left = len(buf)
				return
			}
			if n > len(buf) {
				out.overrun = true
				n = len(buf)
			}
			buf = buf[n:]
			iter++
			if iter > 10000 {
				out.spin = true
				return
			}
		}
	}
	out.left = len(buf)
	return
}

func split(stream []byte, cuts []int) [][]byte {
	var chunks [][]byte
	prev := 0
	for _, c := range cuts {
		if c <= prev || c >= len(stream) {
			continue
		}
		chunks = append(chunks, stream[prev:c])
		prev = c
	}
	return append(chunks, stream[prev:])
}

func sameHead(a, b map[string]string) bool {
	if len(a) != len(b) {
		return false
	}
	for k, v := range a {
		if w, ok := b[k]; !ok || w != v {
			return false
		}
	}
	return true
}

func headClass(m map[string]string) string {
	if len(m) == 0 {
		return "none"
	}
	cl := fmt.Sprintf("n%d", len(m))
	for k, v := range m {
		if k == "" {
			cl += "+emptykey"
		}
		if v == "" {
			cl += "+emptyval"
		}
	}
	return cl
}

// build returns the concatenated stream and the end offset of every frame.
func build(h *sgetty.RpcPackageHandler, c Case) (stream []byte, ends []int, err error) {
	// all frames are produced first and concatenated afterwards (a writer that queues packets): what
	// Write returned for an earlier message must not change when later messages are written
	var frames [][]byte
	for _, m := range c.Msgs {
		b, e := m.frame(h)
		if e != nil {
			return nil, nil, e
		}
		frames = append(frames, b)
	}
	for _, b := range frames {
		stream = append(stream, b...)
		ends = append(ends, len(stream))
	}
	return
}

func runCase(c Case) *pt.Failure {
	return pt.Guard("C13/"+c.Kind, func() *pt.Failure {
		h := sharedHandler
		if c.Kind == "valid" && c.AbandonAt > 0 {
			if f := abandonedFrame(h); c.AbandonAt < len(f) {
				feed(h, [][]byte{f[:c.AbandonAt]}) // the connection dies here; what was read is dropped with it
			}
		}
		switch c.Kind {
		case "garbage":
			out := feed(h, split(c.Raw, c.Cuts))
			if out.spin {
				return pt.Failf("C13/garbage/spin", "reader returned a package with consumed length ≤ 0 (or never made progress): transport loop spins; %d bytes left", out.left)
			}
			return nil
		}
		stream, ends, err := build(h, c)
		if err != nil {
			return pt.Failf("C13/write-error", "Write failed: %v", err)
		}
		if c.Kind == "corrupt" {
			s := append([]byte(nil), stream...)
			if c.CorruptAt >= 0 && c.CorruptAt < len(s) {
				s[c.CorruptAt] ^= c.CorruptXor
			}
			out := feed(h, split(s, c.Cuts))
			if out.spin {
				return pt.Failf("C13/corrupt/spin", "transport loop spins on a stream with one corrupted byte at %d", c.CorruptAt)
			}
			return nil
		}
		return judgeValid(c, stream, ends, feed(h, split(stream, c.Cuts)))
	})
}

func judgeValid(c Case, stream []byte, ends []int, out loopOut) *pt.Failure {
	where := func(off int) string {
		// position of a stream offset relative to its frame
		start := 0
		for i, e := range ends {
			if off < e {
				return fmt.Sprintf("frame %d offset %d", i, off-start)
			}
			start = e
		}
		return "end"
	}
	cutDesc := make([]string, 0, len(c.Cuts))
	for _, k := range c.Cuts {
		cutDesc = append(cutDesc, where(k))
	}
	hm := ""
	for _, m := range c.Msgs {
		if cl := headClass(m.HeadMap); strings.Contains(cl, "empty") {
			hm = "/headmap-empty"
		}
	}
	if out.spin {
		return pt.Failf("C13/valid/spin"+partial(c, ends), "transport loop spins (package delivered with consumed length 0); cuts at %v", cutDesc)
	}
	if out.err != nil {
		return pt.Failf("C13/valid/error"+partial(c, ends), "reader returned an error on a valid stream (session would be closed): %v; cuts at %v", out.err, cutDesc)
	}
	if out.overrun {
		return pt.Failf("C13/valid/overrun", "reader consumed more bytes than buffered; cuts at %v", cutDesc)
	}
	if len(out.deliveries) != len(c.Msgs) {
		return pt.Failf("C13/valid/count"+partial(c, ends), "delivered %d messages, sent %d; cuts at %v", len(out.deliveries), len(c.Msgs), cutDesc)
	}
	start := 0
	for i, d := range out.deliveries {
		want := c.Msgs[i].rpc()
		if d.pkgLen != ends[i]-start {
			return pt.Failf("C13/valid/length", "message %d: consumed length %d, frame length %d", i, d.pkgLen, ends[i]-start)
		}
		if d.fedSoFar < ends[i] {
			return pt.Failf("C13/valid/early"+partial(c, ends), "message %d delivered after %d bytes, its frame ends at %d; cuts at %v", i, d.fedSoFar, ends[i], cutDesc)
		}
		if d.msg.ID != want.ID || d.msg.Type != want.Type || d.msg.Codec != want.Codec || d.msg.Compressor != want.Compressor {
			return pt.Failf("C13/valid/header", "message %d header fields differ: got id=%d type=%d codec=%d comp=%d want id=%d type=%d codec=%d comp=%d", i, d.msg.ID, d.msg.Type, d.msg.Codec, d.msg.Compressor, want.ID, want.Type, want.Codec, want.Compressor)
		}
		if !sameHead(d.msg.HeadMap, want.HeadMap) {
			return pt.Failf("C13/valid/headmap"+hm, "message %d head map differs: got %q want %q", i, d.msg.HeadMap, want.HeadMap)
		}
		if !refwire.EqualMsg(d.msg.Body, want.Body) {
			return pt.Failf("C13/valid/body", "message %d body differs: got %.200s want %.200s", i, fmt.Sprintf("%+v", d.msg.Body), fmt.Sprintf("%+v", want.Body))
		}
		start = ends[i]
	}
	if out.left != 0 {
		return pt.Failf("C13/valid/leftover", "%d bytes left in the buffer after a complete stream", out.left)
	}
	return nil
}

// partial classifies where the first cut falls when it is inside a header (signature refinement).
func partial(c Case, ends []int) string {
	start := 0
	for _, e := range ends {
		for _, k := range c.Cuts {
			if k > start && k < start+16 && k < e {
				return "/cut-in-header"
			}
		}
		start = e
	}
	return ""
}

func cutClasses(c Case, ends []int) (inHeader, inHeadMap bool) {
	start := 0
	for i, e := range ends {
		hmLen := 0
		for k, v := range c.Msgs[i].HeadMap {
			hmLen += 4 + len(k) + len(v)
		}
		for _, k := range c.Cuts {
			if k > start && k < start+16 && k < e {
				inHeader = true
			}
			if k > start+16 && k < start+16+hmLen {
				inHeadMap = true
			}
		}
		start = e
	}
	return
}

// ---- generators ------------------------------------------------------------------------------

func drawHeadMap(t *rapid.T) map[string]string {
	n := rapid.SampledFrom([]int{0, 0, 0, 1, 1, 2, 3, 4}).Draw(t, "headEntries")
	if n == 0 {
		if rapid.Bool().Draw(t, "emptyNotNil") {
			return map[string]string{}
		}
		return nil
	}
	m := map[string]string{}
	for i := 0; i < n; i++ {
		k := rapid.SampledFrom([]string{"k", "key", "", "a:b", "中", "x-y"}).Draw(t, "hk") + fmt.Sprint(i)
		if rapid.IntRange(0, 7).Draw(t, "emptyKey") == 0 {
			k = ""
		}
		v := rapid.SampledFrom([]string{"v", "value", "", "", "é", "0123456789"}).Draw(t, "hv")
		m[k] = v
	}
	return m
}

func drawMsg(t *rapid.T) Msg {
	m := Msg{
		ID:         rapid.OneOf(rapid.SampledFrom([]int32{0, 1, -1, 1<<31 - 1, -1 << 31, 255, 256, 65536}), rapid.Int32()).Draw(t, "id"),
		Type:       byte(rapid.IntRange(0, 4).Draw(t, "type")),
		Compressor: rapid.SampledFrom([]byte{0, 0, 0, 1, 2, 7, 255}).Draw(t, "compressor"),
		HeadMap:    drawHeadMap(t),
		RefFramer:  rapid.Bool().Draw(t, "refFramer"),
	}
	if m.Type <= 2 {
		m.BodyCode = rapid.SampledFrom(gen.WireCodes).Draw(t, "bodyCode")
		raw, _ := json.Marshal(gen.WireMessage(t, m.BodyCode))
		m.Body = raw
	}
	return m
}

func drawMsgs(t *rapid.T, max int) []Msg {
	n := rapid.IntRange(1, max).Draw(t, "nMsgs")
	ms := make([]Msg, n)
	for i := range ms {
		ms[i] = drawMsg(t)
	}
	return ms
}

func frameLens(c Case) (stream []byte, ends []int) {
	stream, ends, err := build(&sgetty.RpcPackageHandler{}, c)
	if err != nil {
		panic(err)
	}
	return
}

// drawCuts draws a partition biased to cut inside headers and head maps.
func drawCuts(t *rapid.T, total int, ends []int) []int {
	n := rapid.IntRange(0, 6).Draw(t, "nCuts")
	set := map[int]bool{}
	for i := 0; i < n; i++ {
		var k int
		fi := rapid.IntRange(0, len(ends)-1).Draw(t, "cutFrame")
		start := 0
		if fi > 0 {
			start = ends[fi-1]
		}
		switch rapid.IntRange(0, 3).Draw(t, "cutKind") {
		case 0: // inside the 16-byte header
			k = start + rapid.IntRange(1, 15).Draw(t, "cutHdr")
		case 1: // shortly after the header (head map / first body bytes)
			k = start + rapid.IntRange(16, 40).Draw(t, "cutHm")
		case 2: // at a frame boundary ±1
			k = ends[fi] + rapid.IntRange(-1, 1).Draw(t, "cutEnd")
		default:
			k = rapid.IntRange(1, total).Draw(t, "cutAny")
		}
		if k > 0 && k < total {
			set[k] = true
		}
	}
	cuts := make([]int, 0, len(set))
	for k := range set {
		cuts = append(cuts, k)
	}
	sort.Ints(cuts)
	return cuts
}

func shape(c Case) string {
	var sb strings.Builder
	for _, m := range c.Msgs {
		fmt.Fprintf(&sb, "[t%d b%d h:%s r%v]", m.Type, m.BodyCode, headClass(m.HeadMap), m.RefFramer)
	}
	return sb.String()
}

func record(test string, c Case, ends []int) {
	inH, inHM := cutClasses(c, ends)
	rel := make([]string, 0, len(c.Cuts))
	for _, k := range c.Cuts {
		start := 0
		for i, e := range ends {
			if k < e {
				rel = append(rel, fmt.Sprintf("%d:%d", i, k-start))
				break
			}
			start = e
		}
	}
	labels := []string{"kind:" + c.Kind, fmt.Sprintf("msgs:%d", len(c.Msgs))}
	if inH {
		labels = append(labels, "cut-in-header")
	}
	if inHM {
		labels = append(labels, "cut-in-headmap")
	}
	for _, m := range c.Msgs {
		if cl := headClass(m.HeadMap); strings.Contains(cl, "empty") {
			labels = append(labels, "headmap-empty-key-or-value")
			break
		}
	}
	ctx.Rec.Case(test, inH || inHM, shape(c)+strings.Join(rel, ","), c, labels...)
}

func TestMain(m *testing.M) {
	codec.Init()
	gen.WireMax = 24
	ctx.Rec.SetRule("generator: 1–6 RpcMessages (sync/response/one-way with a body of any of the 24 types and strings ≤24 bytes, heartbeat ping/pong; ids full range; head maps of 0–4 entries incl. empty keys/values; bytes from the real Write or from the independent framer) concatenated and cut into chunks; partitions: every 1-cut and 2-cut partition for streams ≤96 bytes (exhaustive test), otherwise 0–6 cuts biased into the 16-byte header, the head map and frame boundaries; plus arbitrary/structured garbage and valid streams with one corrupted byte (no panic, no spin). The chunks are pushed through a transcription of getty 1.5.0's handleTCPPackage loop calling the real RpcPackageHandler.Read. Non-trivial: a cut strictly inside a header or head map. Distinct by (message shape sequence, cut offsets relative to frame starts).")
	ctx.Rec.Assume("the transport loop is getty 1.5.0's handleTCPPackage as transcribed in feed()", "bodies are compared through refwire.EqualMsg; body layout itself is C12's subject")
	ctx.RunWitnesses(func(f stats.Finding) *pt.Failure {
		var c Case
		if err := json.Unmarshal(f.Witness, &c); err != nil {
			return nil
		}
		return runCase(c)
	})
	ctx.Main(m)
}

func TestPropRandomPartitions(t *testing.T) {
	ctx.Check(t, func(rt *rapid.T) {
		c := Case{Kind: "valid", Msgs: drawMsgs(rt, 6)}
		stream, ends := frameLens(c)
		c.Cuts = drawCuts(rt, len(stream), ends)
		if rapid.IntRange(0, 3).Draw(rt, "abandon") == 0 {
			c.AbandonAt = rapid.SampledFrom([]int{1, 2, 15, 16, 17, 40, 200}).Draw(rt, "abandonAt")
		}
		record("random-partitions", c, ends)
		ctx.Judge(rt, "random-partitions", runCase(c), c)
	})
}

// TestPropExhaustiveCuts: for short streams every 1-cut and 2-cut partition.
func TestPropExhaustiveCuts(t *testing.T) {
	streams, partitions := 0, 0
	exhLimit, _ := strconv.Atoi(os.Getenv("C13_EXH"))
	if exhLimit == 0 {
		exhLimit = 25
	}
	defer func() {
		full := streams
		if full > exhLimit {
			full = exhLimit
		}
		ctx.Rec.Exhaustive(map[string]interface{}{"short_streams_with_all_1cut_and_2cut_partitions": full, "short_streams_with_all_1cut_partitions": streams, "partitions": partitions})
	}()
	ctx.Check(t, func(rt *rapid.T) {
		c := Case{Kind: "valid", Msgs: drawMsgs(rt, 3)}
		stream, ends := frameLens(c)
		if len(stream) > 96 {
			c.Msgs = c.Msgs[:1]
			stream, ends = frameLens(c)
		}
		if len(stream) > 96 { // keep the header and head map, drop the body
			c.Msgs[0].Type, c.Msgs[0].BodyCode, c.Msgs[0].Body = 3, 0, nil
			stream, ends = frameLens(c)
		}
		streams++
		full := streams <= exhLimit // beyond the limit only the 1-cut partitions are enumerated
		n := len(stream)
		try := func(cuts []int) {
			cc := c
			cc.Cuts = cuts
			partitions++
			record("exhaustive-cuts", cc, ends)
			ctx.Judge(rt, "exhaustive-cuts", runCase(cc), cc)
		}
		try(nil)
		for i := 1; i < n; i++ {
			try([]int{i})
			for j := i + 1; full && j < n; j++ {
				try([]int{i, j})
			}
		}
	})
}

func TestPropGarbage(t *testing.T) {
	ctx.Check(t, func(rt *rapid.T) {
		var raw []byte
		switch rapid.IntRange(0, 2).Draw(rt, "garbageKind") {
		case 0: // arbitrary short byte strings (bodies cannot be reached: too short for a codec to matter)
			raw = rapid.SliceOfN(rapid.Byte(), 0, 24).Draw(rt, "raw")
		default: // structured: a header with hostile length fields, heartbeat type or no body
			total := rapid.SampledFrom([]uint32{0, 1, 15, 16, 17, 20, 32, 0xffff, 0x10000, 0xffffffff}).Draw(rt, "total")
			head := rapid.SampledFrom([]uint16{0, 1, 15, 16, 17, 20, 32, 0xffff}).Draw(rt, "head")
			typ := rapid.SampledFrom([]byte{3, 4, 3, 4, 9, 255}).Draw(rt, "type")
			w := &refwire.W{}
			w.U8(0xda)
			w.U8(0xda)
			w.U8(rapid.Byte().Draw(rt, "version"))
			w.U32(total)
			w.U16(head)
			w.U8(typ)
			w.U8(1)
			w.U8(0)
			w.U32(rapid.Uint32().Draw(rt, "id"))
			// tail restricted to {0,1,2} so that no codec can be led into a giant allocation
			tail := rapid.SliceOfN(rapid.SampledFrom([]byte{0, 0, 1, 2}), 0, 40).Draw(rt, "tail")
			raw = append(w.B, tail...)
			raw = raw[:rapid.IntRange(0, len(raw)).Draw(rt, "truncate")]
		}
		c := Case{Kind: "garbage", Raw: raw}
		n := rapid.IntRange(0, 3).Draw(rt, "nCuts")
		for i := 0; i < n && len(raw) > 1; i++ {
			c.Cuts = append(c.Cuts, rapid.IntRange(1, len(raw)-1).Draw(rt, "cut"))
		}
		sort.Ints(c.Cuts)
		magic := len(raw) >= 2 && raw[0] == 0xda && raw[1] == 0xda
		ctx.Rec.Case("garbage", magic, fmt.Sprintf("%x|%v", raw, c.Cuts), c, "kind:garbage", fmt.Sprintf("garbage-magic:%v", magic))
		ctx.Judge(rt, "garbage", runCase(c), c)
	})
}

func TestPropCorruptedByte(t *testing.T) {
	ctx.Check(t, func(rt *rapid.T) {
		c := Case{Kind: "corrupt", Msgs: drawMsgs(rt, 3)}
		for i := range c.Msgs { // heartbeat or body-less frames only: the body codecs are not the subject here
			c.Msgs[i].Type = byte(3 + i%2)
			c.Msgs[i].BodyCode, c.Msgs[i].Body = 0, nil
		}
		stream, ends := frameLens(c)
		fi := rapid.IntRange(0, len(ends)-1).Draw(rt, "frame")
		start := 0
		if fi > 0 {
			start = ends[fi-1]
		}
		// corrupt the length fields, the magic or the type, or any byte; never turn a heartbeat into a body frame with garbage
		c.CorruptAt = start + rapid.SampledFrom([]int{0, 1, 2, 3, 4, 5, 6, 7, 8, 12, 13, 14, 15, 16, 17, 18, 19}).Draw(rt, "at")
		c.CorruptXor = rapid.SampledFrom([]byte{1, 2, 0x10, 0x80, 0xff}).Draw(rt, "xor")
		if c.CorruptAt >= len(stream) || c.CorruptAt == start+9 {
			c.CorruptAt = start
		}
		c.Cuts = drawCuts(rt, len(stream), ends)
		ctx.Rec.Case("corrupt", true, fmt.Sprintf("%s|%d|%x|%v", shape(c), c.CorruptAt-start, c.CorruptXor, c.Cuts), c, "kind:corrupt")
		ctx.Judge(rt, "corrupt", runCase(c), c)
	})
}

func TestPropReplaySaved(t *testing.T) {
	ctx.ReplayAll(t, func(v *stats.Violation) *pt.Failure {
		var c Case
		if err := json.Unmarshal(v.Case, &c); err != nil {
			return pt.Failf("C13/replay", "bad case: %v", err)
		}
		return runCase(c)
	})
}

func TestReplay(t *testing.T) {
	var c Case
	v, ok := pt.Replay(t, &c)
	if !ok {
		t.Skip("no VERIF_REPLAY_FILE")
	}
	defer ctx.Rec.Flush()
	ctx.Rec.Case("replay", true, string(v.Case), c)
	ctx.Judge(t, v.Test, runCase(c), c)
}
