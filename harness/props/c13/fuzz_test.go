package c13

import (
	"testing"

	"seata.apache.org/seata-go/pkg/protocol/codec"
	sgetty "seata.apache.org/seata-go/pkg/remoting/getty"

	"verifharness/refwire"
)

// FuzzFrames: (data, cut1, cut2). data is fed in up to three chunks through the transcribed
// transport loop. Oracle: no panic, no spin; and when the independent framer accepts data as a
// sequence of complete frames with heartbeat or reference-decodable bodies, the real reader
// delivers exactly those frames with exactly those lengths, whatever the cuts.
func FuzzFrames(f *testing.F) {
	codec.Init()
	hb := refwire.EncodeFrame(refwire.Frame{ID: 1, Type: 3, Codec: 1})
	f.Add(hb, uint16(1), uint16(5))
	f.Add(append(append([]byte{}, hb...), hb...), uint16(16), uint16(17))
	f.Add(refwire.EncodeFrame(refwire.Frame{ID: -1, Type: 4, Codec: 1, HeadMap: map[string]string{"k": "", "": "v"}}), uint16(18), uint16(20))
	for _, e := range refwire.Table {
		f.Add(refwire.EncodeFrame(refwire.Frame{ID: 9, Type: 1, Codec: 1, Body: refwire.EncodeBody(e.Zero)}), uint16(3), uint16(19))
	}
	f.Add([]byte{0xda, 0xda}, uint16(0), uint16(0))
	f.Add([]byte{0xda, 0xda, 1, 0, 0, 0, 0, 0, 0, 3, 1, 0, 0, 0, 0, 1}, uint16(0), uint16(0))
	f.Add([]byte{0xda, 0xda, 1, 0, 0, 0, 20, 0, 30, 3, 1, 0, 0, 0, 0, 1, 0, 0, 0, 0}, uint16(7), uint16(0))
	f.Fuzz(func(t *testing.T, data []byte, c1, c2 uint16) {
		// walk the stream with the independent framer first
		var frames []refwire.Frame
		var ends []int
		off, clean := 0, true
		for off < len(data) {
			fr, n, err := refwire.DecodeFrame(data[off:])
			if err != nil {
				clean = false
				break
			}
			if fr.Type != 3 && fr.Type != 4 && len(fr.Body) > 0 {
				if fr.Codec != 1 {
					return
				}
				if _, rest, err := refwire.DecodeBody(fr.Body); err != nil || rest != 0 {
					return // body garbage: the body codecs may allocate what a bogus length says; not judged (see C12)
				}
			}
			frames = append(frames, fr)
			off += n
			ends = append(ends, off)
		}
		if !clean {
			// only garbage without any decodable-body risk is fed: frames so far must be body-safe (checked above),
			// the remainder is judged for panic/spin only if it cannot reach a body codec
			rest := data[off:]
			if len(rest) >= 10 && rest[9] != 3 && rest[9] != 4 {
				return
			}
		}
		cuts := []int{int(c1), int(c2)}
		if cuts[0] > cuts[1] {
			cuts[0], cuts[1] = cuts[1], cuts[0]
		}
		out := feed(&sgetty.RpcPackageHandler{}, split(data, cuts))
		if out.spin {
			t.Fatalf("spin on %x cuts %v", data, cuts)
		}
		if !clean {
			return
		}
		if out.err != nil || len(out.deliveries) != len(frames) || out.left != 0 {
			t.Fatalf("valid stream %x cuts %v: err=%v delivered=%d want=%d left=%d", data, cuts, out.err, len(out.deliveries), len(frames), out.left)
		}
		start := 0
		for i, d := range out.deliveries {
			if d.pkgLen != ends[i]-start || d.msg.ID != frames[i].ID || byte(d.msg.Type) != frames[i].Type || !sameHead(d.msg.HeadMap, frames[i].HeadMap) {
				t.Fatalf("frame %d of %x differs: got len=%d id=%d type=%d head=%q", i, data, d.pkgLen, d.msg.ID, d.msg.Type, d.msg.HeadMap)
			}
			if len(frames[i].Body) > 0 && frames[i].Type != 3 && frames[i].Type != 4 {
				want, _, _ := refwire.DecodeBody(frames[i].Body)
				if !refwire.EqualMsg(d.msg.Body, want) {
					// negative GlobalBegin timeouts are outside the wire limits (see C12)
					if frames[i].Body[1] == 1 {
						continue
					}
					t.Fatalf("frame %d body differs: got %+v want %+v", i, d.msg.Body, want)
				}
			}
			start = ends[i]
		}
	})
}
