package c12

import (
	"testing"

	"seata.apache.org/seata-go/pkg/protocol/codec"
	"seata.apache.org/seata-go/pkg/protocol/message"

	"verifharness/refwire"
)

// FuzzDecodeDifferential: arbitrary body bytes. Whenever the
// reference layout accepts the bytes completely, the real decoder must yield the same message and
// re-encoding it must be accepted by the reference decoder with the same value.
func FuzzDecodeDifferential(f *testing.F) {
	codec.Init()
	for _, e := range refwire.Table {
		f.Add(refwire.EncodeBody(e.Zero))
	}
	f.Add([]byte{0, 4, 0, 0, 3, 'a', 'b', 'c', 7, 0, 1, 'x', 0, 0, 0, 0, 0, 0, 0, 9, 2})
	f.Add([]byte{0, 22, 0, 0xff, 0xff})
	f.Add([]byte{0, 11, 0xff, 0xff})
	f.Fuzz(func(t *testing.T, data []byte) {
		m, rest, err := refwire.DecodeBody(data)
		if err != nil || rest != 0 {
			// Not a complete v1 body. C12 does not speak about such bytes (a bogus 32-bit length makes
			// the real decoder allocate that much, which only costs time), so they are not judged.
			return
		}
		if b, ok := m.(message.GlobalBeginRequest); ok && b.Timeout < 0 {
			return // outside the wire limits of the property (durations are in [0, 2^31) ms)
		}
		got := codec.GetCodecManager().Decode(codec.CodecTypeSeata, data)
		if got == nil {
			t.Fatalf("reference layout accepts %x as %T, real decoder returns nil", data, m)
		}
		if !equalMsg(got, m) {
			t.Fatalf("decode differs on %x:\n real %+v\n  ref %+v", data, got, m)
		}
		re := codec.GetCodecManager().Encode(codec.CodecTypeSeata, got)
		m2, rest2, err2 := refwire.DecodeBody(re)
		if err2 != nil || rest2 != 0 || !equalMsg(m2, m) {
			t.Fatalf("re-encoding of %x not accepted by the reference layout: err=%v rest=%d", data, err2, rest2)
		}
	})
}
