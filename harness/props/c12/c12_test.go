// C12 — wire codec matches the Seata v1 layout and round-trips every message.
package c12

import (
	"bytes"
	"encoding/json"
	"fmt"
	"reflect"
	"strings"
	"testing"

	"pgregory.net/rapid"

	"seata.apache.org/seata-go/pkg/protocol/codec"
	"seata.apache.org/seata-go/pkg/protocol/message"

	"verifharness/gen"
	"verifharness/pt"
	"verifharness/refwire"
	"verifharness/stats"
)

var ctx = pt.New("C12")

type Case struct {
	Kind string          `json:"kind"` // layout | overlong | registration
	Code int             `json:"code"`
	Name string          `json:"name"`
	Msg  json.RawMessage `json:"msg"`
	// OverLong > 0: the result message is replaced by a string of that many bytes (beyond the wire limit)
	OverLong int    `json:"over_long,omitempty"`
	Fill     string `json:"fill,omitempty"`
	Summary  string `json:"summary,omitempty"`
}

func (c Case) value() interface{} {
	e := refwire.ByCode(c.Code)
	if c.Msg == nil {
		return e.Zero
	}
	p := reflect.New(reflect.TypeOf(e.Zero))
	if err := json.Unmarshal(c.Msg, p.Interface()); err != nil {
		panic(err)
	}
	v := p.Elem().Interface()
	if c.OverLong > 0 {
		v = setMsg(v, gen.BuildString(c.OverLong, c.Fill))
	}
	return v
}

// setMsg sets ResultCode=Failed and Msg on any message that embeds AbstractResultMessage.
func setMsg(v interface{}, msg string) interface{} {
	p := reflect.New(reflect.TypeOf(v))
	p.Elem().Set(reflect.ValueOf(v))
	var find func(x reflect.Value) bool
	find = func(x reflect.Value) bool {
		if x.Type() == reflect.TypeOf(message.AbstractResultMessage{}) {
			x.Set(reflect.ValueOf(message.AbstractResultMessage{ResultCode: message.ResultCodeFailed, Msg: msg}))
			return true
		}
		if x.Kind() == reflect.Struct {
			for i := 0; i < x.NumField(); i++ {
				if x.Type().Field(i).Anonymous && x.Field(i).Kind() == reflect.Struct && find(x.Field(i)) {
					return true
				}
			}
		}
		return false
	}
	if !find(p.Elem()) {
		return nil
	}
	return p.Elem().Interface()
}

func hasResult(code int) bool {
	return setMsg(refwire.ByCode(code).Zero, "x") != nil && code != 102 && code != 104
}

func equalMsg(a, b interface{}) bool { return refwire.EqualMsg(a, b) }

// fieldClasses summarises a message: per string/bytes field its length class, plus result code.
func fieldClasses(v interface{}) (classes []string, boundary, nonASCII, failed bool) {
	var walk func(name string, x reflect.Value)
	walk = func(name string, x reflect.Value) {
		switch x.Kind() {
		case reflect.Struct:
			for i := 0; i < x.NumField(); i++ {
				walk(x.Type().Field(i).Name, x.Field(i))
			}
		case reflect.String, reflect.Slice:
			var s string
			if x.Kind() == reflect.String {
				s = x.String()
			} else if x.Type().Elem().Kind() == reflect.Uint8 {
				s = string(x.Bytes())
			} else {
				return
			}
			cl := gen.StrClass(len(s))
			classes = append(classes, name+":"+cl)
			if len(s) >= 127 {
				boundary = true
			}
			for i := 0; i < len(s); i++ {
				if s[i] >= 0x80 {
					nonASCII = true
					break
				}
			}
		}
	}
	walk("", reflect.ValueOf(v))
	if r := reflect.ValueOf(v); r.Kind() == reflect.Struct {
		if f := r.FieldByName("ResultCode"); f.IsValid() && f.Uint() == 0 {
			failed = true
		}
	}
	return
}

func diffAt(a, b []byte) string {
	n := len(a)
	if len(b) < n {
		n = len(b)
	}
	i := 0
	for i < n && a[i] == b[i] {
		i++
	}
	clip := func(x []byte) string {
		lo, hi := i-4, i+12
		if lo < 0 {
			lo = 0
		}
		if hi > len(x) {
			hi = len(x)
		}
		if lo > len(x) {
			lo = len(x)
		}
		return fmt.Sprintf("%x", x[lo:hi])
	}
	return fmt.Sprintf("len repo=%d ref=%d first difference at byte %d: repo …%s ref …%s", len(a), len(b), i, clip(a), clip(b))
}

// runCase is the oracle. It is used by the rapid property, the witnesses and the replay tier.
func runCase(c Case) *pt.Failure {
	name := refwire.ByCode(c.Code).Name
	if c.Kind == "registration" {
		return checkRegistration(*refwire.ByCode(c.Code))
	}
	return pt.Guard("C12/"+name, func() *pt.Failure {
		v := c.value()
		cm := codec.GetCodecManager()
		repo := cm.Encode(codec.CodecTypeSeata, v)
		if repo == nil {
			return pt.Failf("C12/"+name+"/no-codec", "CodecManager.Encode returned nil for %s (type code %d): no codec registered", name, c.Code)
		}
		if c.OverLong > 0 {
			// over-long message: truncated to a valid prefix, later fields still decodable
			m, rest, err := refwire.DecodeBody(repo)
			if err != nil || rest != 0 {
				return pt.Failf("C12/"+name+"/overlong-undecodable", "over-long message (%d bytes): encoded body not decodable by the v1 layout: err=%v rest=%d", c.OverLong, err, rest)
			}
			orig := reflect.ValueOf(v).FieldByName("Msg").String()
			got := reflect.ValueOf(m).FieldByName("Msg").String()
			if len(got) > refwire.MaxMsg || !strings.HasPrefix(orig, got) {
				return pt.Failf("C12/"+name+"/overlong-not-prefix", "truncated message is not a prefix ≤32767 of the original: got %d bytes", len(got))
			}
			if !equalMsg(setMsg(m, ""), setMsg(v, "")) {
				return pt.Failf("C12/"+name+"/overlong-fields", "fields after the truncated message changed: %+v", setMsg(m, ""))
			}
			// and the repo's own decoder agrees
			back := cm.Decode(codec.CodecTypeSeata, repo)
			if back == nil || !equalMsg(setMsg(back, ""), setMsg(v, "")) {
				return pt.Failf("C12/"+name+"/overlong-selfdecode", "repo decoder does not recover the later fields of its own truncated encoding")
			}
			return nil
		}
		ref := refwire.EncodeBody(v)
		// another message is encoded and decoded before the first result is looked at: the bytes handed
		// out earlier must still be the first message's (the codec manager is a process-wide singleton)
		_ = cm.Encode(codec.CodecTypeSeata, message.GlobalRollbackRequest{AbstractGlobalEndRequest: message.AbstractGlobalEndRequest{Xid: "interleaved:8091:77", ExtraData: []byte("between two uses")}})
		_ = cm.Decode(codec.CodecTypeSeata, refwire.EncodeBody(message.BranchReportResponse{}))
		if !bytes.Equal(repo, ref) {
			return pt.Failf("C12/"+name+"/layout", "encoded bytes differ from the v1 layout: %s", diffAt(repo, ref))
		}
		back := cm.Decode(codec.CodecTypeSeata, ref)
		if back == nil {
			return pt.Failf("C12/"+name+"/no-codec", "CodecManager.Decode returned nil for the v1 bytes of %s", name)
		}
		if !equalMsg(back, v) {
			return pt.Failf("C12/"+name+"/roundtrip", "Decode(v1 bytes) != original\n got %.300v\nwant %.300v", fmt.Sprintf("%+v", back), fmt.Sprintf("%+v", v))
		}
		m, rest, err := refwire.DecodeBody(repo)
		if err != nil || rest != 0 || !equalMsg(m, v) {
			return pt.Failf("C12/"+name+"/ref-decode", "v1 decoder on repo bytes: err=%v rest=%d equal=%v", err, rest, err == nil && equalMsg(m, v))
		}
		return nil
	})
}

func TestMain(m *testing.M) {
	codec.Init()
	ctx.Rec.SetRule("generator: for a drawn type code (24 types, uniform) a message with every string field drawn from {free-form ≤12 runes, byte length at a prefix boundary (0,1,127..129,254..257,32766..32769,65534,65535 and, for 32-bit prefixes, 65536,70000), uniform length} × fill {ASCII, 2/3/4-byte UTF-8, NUL, separators}, all byte values for enums, boundary-biased int64 ids, whole-millisecond timeouts in [0,2^31), result code both ways; separately messages whose error text exceeds 32767 bytes. Non-trivial: a field ≥127 bytes, a non-ASCII string, a failure result, or an over-long message. Distinct by (type, per-field length class, result code, over-long length class).")
	ctx.Rec.Assume("the reference layout table (harness/refwire) is written from knowledge of the Java Seata v1 codecs; it cannot be fetched here (DESIGN §5 C12 L)")
	ctx.RunWitnesses(func(f stats.Finding) *pt.Failure {
		var c Case
		if err := json.Unmarshal(f.Witness, &c); err != nil {
			return nil
		}
		return runCase(c)
	})
	ctx.Main(m)
}

func drawCase(t *rapid.T) Case {
	code := rapid.SampledFrom(gen.WireCodes).Draw(t, "code")
	v := gen.WireMessage(t, code)
	raw, err := json.Marshal(v)
	if err != nil {
		t.Fatalf("marshal: %v", err)
	}
	return Case{Kind: "layout", Code: code, Name: refwire.ByCode(code).Name, Msg: raw}
}

func record(test string, c Case) {
	v := c.value()
	classes, boundary, nonASCII, failed := fieldClasses(v)
	nt := boundary || nonASCII || failed || c.OverLong > 0
	canon := fmt.Sprintf("%d|%v|%v|%s", c.Code, classes, failed, gen.StrClass(c.OverLong))
	labels := []string{"type:" + c.Name}
	if boundary {
		labels = append(labels, "field>=127B")
	}
	if nonASCII {
		labels = append(labels, "non-ascii")
	}
	if failed {
		labels = append(labels, "failure-result")
	}
	if c.OverLong > 0 {
		labels = append(labels, "over-long-msg")
	}
	s := c
	s.Summary = strings.Join(classes, " ")
	if len(s.Msg) > 400 {
		s.Msg = json.RawMessage(fmt.Sprintf("%q", string(s.Msg[:400])+"…"))
	}
	ctx.Rec.Case(test, nt, canon, s, labels...)
}

func TestPropLayoutAndRoundTrip(t *testing.T) {
	ctx.Check(t, func(rt *rapid.T) {
		c := drawCase(rt)
		record("layout", c)
		ctx.Judge(rt, "layout", runCase(c), c)
	})
}

func TestPropOverLongMessage(t *testing.T) {
	var codes []int
	for _, c := range gen.WireCodes {
		if hasResult(c) {
			codes = append(codes, c)
		}
	}
	ctx.Check(t, func(rt *rapid.T) {
		code := rapid.SampledFrom(codes).Draw(rt, "code")
		v := gen.WireMessage(rt, code)
		raw, _ := json.Marshal(v)
		c := Case{Kind: "overlong", Code: code, Name: refwire.ByCode(code).Name, Msg: raw,
			OverLong: rapid.SampledFrom([]int{32768, 32769, 40000, 65535, 65536, 65537, 70000, 131072}).Draw(rt, "overlong"),
			Fill:     rapid.SampledFrom([]string{"a", "é", "中", "😀"}).Draw(rt, "fill")}
		record("overlong", c)
		ctx.Judge(rt, "overlong", runCase(c), c)
	})
}

// TestRegistration: every type of the table has a registered codec with the right type code.
func TestRegistration(t *testing.T) {
	defer ctx.Rec.Flush()
	for _, e := range refwire.Table {
		c := Case{Kind: "registration", Code: e.Code, Name: e.Name}
		fl := checkRegistration(e)
		ctx.Rec.Case("registration", true, e.Name, c, "registration")
		ctx.Judge(t, "registration", fl, c)
	}
	ctx.Rec.Exhaustive(map[string]interface{}{"registration_table_entries": len(refwire.Table)})
}

func checkRegistration(e refwire.Entry) *pt.Failure {
	{
		return pt.Guard("C12/"+e.Name, func() *pt.Failure {
			cd := codec.GetCodecManager().GetCodec(codec.CodecTypeSeata, message.MessageType(e.Code))
			if cd == nil {
				return pt.Failf("C12/"+e.Name+"/no-codec", "no codec registered for type code %d (%s)", e.Code, e.Name)
			}
			if int(cd.GetMessageType()) != e.Code {
				return pt.Failf("C12/"+e.Name+"/codec-code", "codec type code %d != %d", cd.GetMessageType(), e.Code)
			}
			if got := int(e.Zero.(message.MessageTypeAware).GetTypeCode()); got != e.Code {
				return pt.Failf("C12/"+e.Name+"/msg-code", "message type code %d != %d", got, e.Code)
			}
			return nil
		})
	}
}

// TestReplay re-executes one saved case without rapid.
func TestReplay(t *testing.T) {
	var c Case
	v, ok := pt.Replay(t, &c)
	if !ok {
		t.Skip("no VERIF_REPLAY_FILE")
	}
	defer ctx.Rec.Flush()
	if c.Msg == nil {
		c.Msg = json.RawMessage("{}")
	}
	ctx.Rec.Case("replay", true, string(v.Case), c)
	ctx.Judge(t, v.Test, runCase(c), c)
}

// TestPropReplaySaved runs the saved regression inputs of this property.
func TestPropReplaySaved(t *testing.T) {
	ctx.ReplayAll(t, func(v *stats.Violation) *pt.Failure {
		var c Case
		if err := json.Unmarshal(v.Case, &c); err != nil {
			return pt.Failf("C12/replay", "bad case: %v", err)
		}
		return runCase(c)
	})
}
