// C19 — only live sessions are chosen; reconnection restores both directions.
package c19

import (
	"context"
	"encoding/json"
	"fmt"
	"os"
	"reflect"
	"strconv"
	"strings"
	"sync"
	"sync/atomic"
	"testing"
	"time"

	getty "github.com/apache/dubbo-getty"
	"pgregory.net/rapid"

	"seata.apache.org/seata-go/pkg/protocol/branch"
	"seata.apache.org/seata-go/pkg/protocol/message"
	"seata.apache.org/seata-go/pkg/remoting/loadbalance"
	"seata.apache.org/seata-go/pkg/remoting/rpc"
	"seata.apache.org/seata-go/pkg/rm"
	"seata.apache.org/seata-go/pkg/rm/tcc"
	"seata.apache.org/seata-go/pkg/tm"

	"verifharness/boot"
	"verifharness/faketc"
	"verifharness/pt"
	"verifharness/stats"
)

var (
	ctx = pt.New("C19")
	tc  *faketc.TC
)

// ---- part A: selection -----------------------------------------------------------------------

type lbSession struct {
	getty.Session
	id     int
	addr   string
	closed int32
}

func (s *lbSession) IsClosed() bool     { return atomic.LoadInt32(&s.closed) == 1 }
func (s *lbSession) RemoteAddr() string { return s.addr }
func (s *lbSession) Close()             { atomic.StoreInt32(&s.closed, 1) }
func (s *lbSession) Stat() string       { return fmt.Sprintf("lb%d[%s]", s.id, s.addr) }

// (one address is a string prefix of another: 10.0.0.1:80 / 10.0.0.1:8091)
var addrs = []string{"10.0.0.1:8091", "10.0.0.2:8091", "10.0.0.1:8092", "10.0.0.3:9000", "10.0.0.1:80"}
var policies = []string{"RandomLoadBalance", "XID", "RoundRobinLoadBalance", "ConsistentHashLoadBalance", "LeastActiveLoadBalance", "NoSuchPolicy"}

type Action struct {
	Kind   string `json:"kind"` // open | close | remove | select
	Addr   int    `json:"addr,omitempty"`
	Idx    int    `json:"idx,omitempty"`
	Policy int    `json:"policy,omitempty"`
	Xid    string `json:"xid,omitempty"` // for select: "@k:id" = address k, or a literal
}

type Case struct {
	Kind    string   `json:"kind"` // selection | reconnect | xid-routing
	Actions []Action `json:"actions,omitempty"`
	// reconnect
	Losses int    `json:"losses,omitempty"`
	LossAt string `json:"loss_at,omitempty"` // idle | between-phases
	// Bystander: a second coordinator session stays open while the first is lost and re-established
	Bystander bool `json:"bystander,omitempty"`
	Sessions  int  `json:"sessions,omitempty"`
}

func runSelection(c Case) *pt.Failure {
	loadbalance.ResetConsistentHashForVerif()
	m := &sync.Map{}
	var all []*lbSession
	inMap := map[*lbSession]bool{}
	var busy []string
	defer func() {
		for _, a := range busy {
			rpc.EndCount(a)
		}
	}()
	for step, a := range c.Actions {
		switch a.Kind {
		case "open":
			s := &lbSession{id: len(all), addr: addrs[a.Addr%len(addrs)]}
			all = append(all, s)
			m.Store(getty.Session(s), true)
			inMap[s] = true
		case "close":
			if len(all) > 0 {
				all[a.Idx%len(all)].Close()
			}
		case "remove":
			if len(all) > 0 {
				s := all[a.Idx%len(all)]
				s.Close() // releaseSession closes and removes
				m.Delete(getty.Session(s))
				delete(inMap, s)
			}
		case "busy":
			// requests in flight on an address (what the least-active policy looks at)
			rpc.BeginCount(addrs[a.Addr%len(addrs)])
			busy = append(busy, addrs[a.Addr%len(addrs)])
		case "select":
			xid := a.Xid
			if strings.HasPrefix(xid, "@") {
				var k int
				var id string
				fmt.Sscanf(xid, "@%d:%s", &k, &id)
				xid = addrs[k%len(addrs)] + ":" + id
			}
			pol := policies[a.Policy%len(policies)]
			// the generated xid first, then a batch of sibling xids (same address, other transaction ids):
			// where an xid lands on the hash ring depends on every character of it
			probe := []string{xid}
			if parts := strings.Split(xid, ":"); len(parts) == 3 {
				for i := 1; i <= 24; i++ {
					probe = append(probe, fmt.Sprintf("%s:%s:%s%d", parts[0], parts[1], parts[2], i))
				}
			}
			for _, xid := range probe {
				if fl := checkSelect(step, pol, m, xid, inMap); fl != nil {
					return fl
				}
			}
		}
	}
	return nil
}

func checkSelect(step int, pol string, m *sync.Map, xid string, inMap map[*lbSession]bool) *pt.Failure {
	var open []*lbSession
	for s := range inMap {
		if !s.IsClosed() {
			open = append(open, s)
		}
	}
	res := loadbalance.Select(pol, m, xid)
	where := fmt.Sprintf("step %d select(%s, %q)", step, pol, xid)
	if res == nil {
		if len(open) > 0 {
			return pt.Failf("C19/select/"+pol+"/nil-with-open", "%s returned nil although %d open sessions are registered", where, len(open))
		}
		return nil
	}
	ls, ok := res.(*lbSession)
	if !ok {
		return pt.Failf("C19/select/"+pol+"/foreign", "%s returned a session that was never registered", where)
	}
	if ls.IsClosed() {
		return pt.Failf("C19/select/"+pol+"/closed", "%s returned closed session %s (open registered sessions: %d)", where, ls.Stat(), len(open))
	}
	if !inMap[ls] {
		return pt.Failf("C19/select/"+pol+"/unregistered", "%s returned session %s which is no longer registered", where, ls.Stat())
	}
	if pol == "XID" {
		parts := strings.Split(xid, ":")
		if len(parts) == 3 {
			want := parts[0] + ":" + parts[1]
			has := false
			for _, s := range open {
				has = has || s.addr == want
			}
			if has && ls.addr != want {
				return pt.Failf("C19/select/XID/wrong-address", "%s returned %s although an open session to %s exists", where, ls.Stat(), want)
			}
		}
	}
	return nil
}

func drawActions(t *rapid.T) []Action {
	n := rapid.IntRange(1, 24).Draw(t, "n")
	var as []Action
	for i := 0; i < n; i++ {
		switch rapid.SampledFrom([]string{"open", "open", "close", "remove", "select", "select", "select", "busy"}).Draw(t, "kind") {
		case "busy":
			as = append(as, Action{Kind: "busy", Addr: rapid.IntRange(0, 4).Draw(t, "addr")})
		case "open":
			as = append(as, Action{Kind: "open", Addr: rapid.IntRange(0, 4).Draw(t, "addr")})
		case "close":
			as = append(as, Action{Kind: "close", Idx: rapid.IntRange(0, 7).Draw(t, "idx")})
		case "remove":
			as = append(as, Action{Kind: "remove", Idx: rapid.IntRange(0, 7).Draw(t, "idx")})
		default:
			xid := rapid.OneOf(
				rapid.Map(rapid.IntRange(0, 4999), func(k int) string { return fmt.Sprintf("@%d:%d", k%5, 1+k) }),
				rapid.SampledFrom([]string{"", "abc", "a:b", "a:b:c:d", "10.9.9.9:1:5", "::", "10.0.0.1:8091"}),
			).Draw(t, "xid")
			as = append(as, Action{Kind: "select", Policy: rapid.SampledFrom([]int{0, 1, 2, 3, 3, 3, 3, 4, 5}).Draw(t, "policy"), Xid: xid}) // (3 = the only policy with state between calls)
		}
	}
	return as
}

func recordSelection(test string, c Case) {
	changed, sel := false, 0
	seenSel := false
	var sb strings.Builder
	for _, a := range c.Actions {
		switch a.Kind {
		case "select":
			sel++
			seenSel = true
			fmt.Fprintf(&sb, "s%d%s;", a.Policy, a.Xid)
		default:
			if seenSel {
				changed = true
			}
			fmt.Fprintf(&sb, "%s%d%d;", a.Kind[:1], a.Addr, a.Idx)
		}
	}
	last := len(c.Actions) > 0 && c.Actions[len(c.Actions)-1].Kind == "select"
	ctx.Rec.Case(test, changed && sel >= 2 && last || changed && sel >= 2, sb.String(), c, "kind:selection", fmt.Sprintf("selects:%d", min(sel, 5)))
}

func min(a, b int) int {
	if a < b {
		return a
	}
	return b
}

func TestPropSelection(t *testing.T) {
	ctx.Check(t, func(rt *rapid.T) {
		c := Case{Kind: "selection", Actions: drawActions(rt)}
		recordSelection("selection", c)
		ctx.Judge(rt, "selection", runCase(c), c)
	})
}

// ---- part B: reconnect -----------------------------------------------------------------------

type action struct {
	name      string
	mu        sync.Mutex
	commits   []string
	rollbacks []string
}

func (a *action) Prepare(ctx context.Context, params interface{}) (bool, error) { return true, nil }
func (a *action) Commit(ctx context.Context, bac *tm.BusinessActionContext) (bool, error) {
	a.mu.Lock()
	a.commits = append(a.commits, fmt.Sprintf("%s/%d", bac.Xid, bac.BranchId))
	a.mu.Unlock()
	return true, nil
}
func (a *action) Rollback(ctx context.Context, bac *tm.BusinessActionContext) (bool, error) {
	a.mu.Lock()
	a.rollbacks = append(a.rollbacks, fmt.Sprintf("%s/%d", bac.Xid, bac.BranchId))
	a.mu.Unlock()
	return true, nil
}
func (a *action) GetActionName() string { return a.name }

var lateSeq int64

var (
	tccOnce  sync.Once
	tccProxy *tcc.TCCServiceProxy
	tccAct   = &action{name: "c19-tcc-action"}
)

func sessionEvents(n int, pred func(b interface{}) bool) int {
	k := 0
	for _, e := range tc.Events() {
		if e.Dir == "c2s" && e.Session == n && pred(e.Body) {
			k++
		}
	}
	return k
}

func waitFor(d time.Duration, f func() bool) bool {
	end := time.Now().Add(d)
	for time.Now().Before(end) {
		if f() {
			return true
		}
		time.Sleep(2 * time.Millisecond)
	}
	return f()
}

// runReconnect: open s1, register a TCC resource, (optionally run phase one of a TCC branch), lose the
// connection, open s2 (repeat Losses times); then: the new session got RegisterTM and a RegisterRM naming
// the resource; a new global transaction begins; phase two of the pre-loss branch reaches the action.
func runReconnect(c Case) *pt.Failure {
	tc.Reset()
	tm.InitTm(tm.TmConfig{CommitRetryCount: 1, RollbackRetryCount: 1, DefaultGlobalTransactionTimeout: 60 * time.Second})
	s := tc.Open()
	defer func() {
		if !s.IsClosed() {
			tc.Lose(s)
		}
	}()
	if !tc.WaitRegistered(s, 5*time.Second) {
		return pt.Failf("C19/reconnect/no-tm-registration", "first session never received RegisterTMRequest")
	}
	if c.Bystander {
		by := tc.OpenAt("10.1.0.77:8091")
		defer tc.Lose(by)
		if !tc.WaitRegistered(by, 5*time.Second) {
			return pt.Failf("C19/reconnect/no-tm-registration", "second session never received RegisterTMRequest")
		}
	}
	var err error
	tccOnce.Do(func() { tccProxy, err = tcc.NewTCCServiceProxy(tccAct) })
	if err != nil || tccProxy == nil {
		return pt.Failf("C19/harness", "NewTCCServiceProxy: %v", err)
	}
	var preBranch *faketc.Branch
	if c.LossAt == "between-phases" {
		e := tm.WithGlobalTx(context.Background(), &tm.GtxConfig{Name: "c19-pre"}, func(cx context.Context) error {
			_, e := tccProxy.Prepare(cx, struct{}{})
			// the connection is lost before the initiator decides; decision is sent on the new session
			return e
		})
		if e != nil {
			return pt.Failf("C19/harness", "pre-loss transaction failed: %v", e)
		}
		bs := tc.Branches()
		if len(bs) != 1 {
			return pt.Failf("C19/harness", "expected one registered branch, got %d", len(bs))
		}
		preBranch = bs[0]
	}
	lateName := ""
	if c.LossAt == "during-registration" {
		// a further action is registered while the connection breaks: its announcement is lost in flight
		lateName = fmt.Sprintf("c19-late-%d", atomic.AddInt64(&lateSeq, 1))
		tc.Script(message.RegisterRMRequest{}.GetTypeCode(), faketc.Action{Kind: faketc.TransportError})
		_, _ = tcc.NewTCCServiceProxy(&action{name: lateName})
	}
	for i := 0; i < c.Losses; i++ {
		tc.Lose(s)
		s = tc.Open()
		n := s.N
		if !waitFor(2*time.Second, func() bool {
			return sessionEvents(n, func(b interface{}) bool { _, ok := b.(message.RegisterTMRequest); return ok }) > 0
		}) {
			return pt.Failf("C19/reconnect/no-tm-registration", "session %d (after loss %d) never received RegisterTMRequest", n, i+1)
		}
		rmOK := waitFor(100*time.Millisecond, func() bool {
			return sessionEvents(n, func(b interface{}) bool {
				r, ok := b.(message.RegisterRMRequest)
				return ok && strings.Contains(r.ResourceIds, tccAct.name)
			}) > 0
		})
		if !rmOK && ctx.KnownActive("C19-K1") {
			ctx.Rec.Excluded("C19-K1") // known finding: clause skipped, the rest of the history is still judged
		} else if !rmOK {
			return pt.Failf("C19/reconnect/no-rm-registration", "session %d (after loss %d) received no RegisterRMRequest naming resource %q: the coordinator cannot route phase two for it", n, i+1, tccAct.name)
		}
	}
	if lateName != "" {
		n := s.N
		if !waitFor(500*time.Millisecond, func() bool {
			return sessionEvents(n, func(b interface{}) bool {
				r, ok := b.(message.RegisterRMRequest)
				return ok && strings.Contains(r.ResourceIds, lateName)
			}) > 0
		}) {
			return pt.Failf("C19/reconnect/no-rm-registration/announcement-lost-in-flight", "resource %q was registered while the connection broke (its announcement failed); session %d, opened afterwards, received no RegisterRMRequest naming it", lateName, n)
		}
	}
	// a new global transaction can begin on the new session
	var seen string
	e := tm.WithGlobalTx(context.Background(), &tm.GtxConfig{Name: "c19-post"}, func(cx context.Context) error {
		seen = tm.GetXID(cx)
		return nil
	})
	if e != nil || seen == "" {
		return pt.Failf("C19/reconnect/begin-after-reconnect", "new global transaction after reconnect failed: %v", e)
	}
	if preBranch != nil {
		st, resp := tc.BranchCommit(s, preBranch, 3*time.Second)
		if resp == nil || st != branch.BranchStatusPhasetwoCommitted {
			return pt.Failf("C19/reconnect/phase-two", "phase-two commit of the pre-loss branch on the new session: status %v response %v", st, resp)
		}
		tccAct.mu.Lock()
		got := append([]string(nil), tccAct.commits...)
		tccAct.mu.Unlock()
		want := fmt.Sprintf("%s/%d", preBranch.Xid, preBranch.ID)
		found := false
		for _, g := range got {
			found = found || g == want
		}
		if !found {
			return pt.Failf("C19/reconnect/phase-two", "action commit not invoked for %s (invocations: %v)", want, got)
		}
	}
	return nil
}

// runXidRouting: two sessions to different coordinator addresses under the XID policy: the second
// phase of every transaction must go to the session whose address is in the xid.
func runXidRouting(c Case) *pt.Failure {
	tc.Reset()
	tm.InitTm(tm.TmConfig{CommitRetryCount: 1, RollbackRetryCount: 1, DefaultGlobalTransactionTimeout: 60 * time.Second})
	var ss []*faketc.Session
	for i := 0; i < c.Sessions; i++ {
		s := tc.OpenAt(fmt.Sprintf("10.1.0.%d:8091", i+1))
		ss = append(ss, s)
	}
	defer func() {
		for _, s := range ss {
			tc.Lose(s)
		}
	}()
	for _, s := range ss {
		if !tc.WaitRegistered(s, 2*time.Second) {
			return pt.Failf("C19/reconnect/tm-registration-on-wrong-session", "with %d sessions open, session %d (%s) never received its RegisterTMRequest", len(ss), s.N, s.RemoteAddr())
		}
	}
	for i := 0; i < 12; i++ {
		fail := i%2 == 1
		_ = tm.WithGlobalTx(context.Background(), &tm.GtxConfig{Name: "c19-route"}, func(cx context.Context) error {
			// every kind of request that carries the xid: branch register, lock query, branch report
			xid := tm.GetXID(cx)
			r := rm.GetRMRemotingInstance()
			if id, err := r.BranchRegister(rm.BranchRegisterParam{BranchType: branch.BranchTypeAT, ResourceId: "c19-res", Xid: xid, LockKeys: fmt.Sprintf("t:%d", i)}); err == nil {
				_ = r.BranchReport(rm.BranchReportParam{BranchType: branch.BranchTypeAT, Xid: xid, BranchId: id, Status: branch.BranchStatusPhaseoneDone})
			}
			_, _ = r.LockQuery(rm.LockQueryParam{BranchType: branch.BranchTypeAT, ResourceId: "c19-res", Xid: xid, LockKeys: fmt.Sprintf("t:%d", 100+i)})
			if fail {
				return fmt.Errorf("x")
			}
			return nil
		})
	}
	seen := map[string]int{}
	for _, e := range tc.Events() {
		if e.Dir != "c2s" || e.Body == nil {
			continue
		}
		// any message with an Xid field (also one promoted from an embedded struct)
		v := reflect.ValueOf(e.Body)
		if v.Kind() != reflect.Struct {
			continue
		}
		f := v.FieldByName("Xid")
		if !f.IsValid() || f.Kind() != reflect.String || f.String() == "" || strings.Count(f.String(), ":") < 2 {
			continue
		}
		xid := f.String()
		seen[fmt.Sprintf("%T", e.Body)]++
		addr := xid[:strings.LastIndex(xid, ":")]
		if got := ss[e.Session-ss[0].N].RemoteAddr(); got != addr {
			return pt.Failf("C19/xid-routing", "%T of %s was sent to the session connected to %s although the session to %s is open (XID policy)", e.Body, xid, got, addr)
		}
	}
	for _, want := range []string{"message.GlobalCommitRequest", "message.GlobalRollbackRequest", "message.BranchRegisterRequest", "message.BranchReportRequest", "message.GlobalLockQueryRequest"} {
		if seen[want] == 0 {
			return pt.Failf("C19/harness", "no %s was observed in the routing history (seen: %v)", want, seen)
		}
	}
	return nil
}

func runCase(c Case) *pt.Failure {
	return pt.Guard("C19/"+c.Kind, func() *pt.Failure {
		switch c.Kind {
		case "selection":
			return runSelection(c)
		case "reconnect":
			return runReconnect(c)
		case "xid-routing":
			return runXidRouting(c)
		}
		return pt.Failf("C19/harness", "unknown kind %q", c.Kind)
	})
}

// slowCap bounds the number of reconnect / routing cases (each waits real time for messages that must not be missed).
func slowCap() int {
	n, _ := strconv.Atoi(os.Getenv("C19_RECONNECT"))
	if n == 0 {
		n = 30
	}
	return n
}

func TestPropReconnect(t *testing.T) {
	n := 0
	ctx.Check(t, func(rt *rapid.T) {
		if n++; n > slowCap() {
			return
		}
		c := Case{Kind: "reconnect", Losses: rapid.IntRange(1, 3).Draw(rt, "losses"), LossAt: rapid.SampledFrom([]string{"idle", "between-phases", "during-registration"}).Draw(rt, "lossAt"), Bystander: rapid.Bool().Draw(rt, "bystander")}
		ctx.Rec.Case("reconnect", true, fmt.Sprintf("%d|%s|%v", c.Losses, c.LossAt, c.Bystander), c, "kind:reconnect", "loss-at:"+c.LossAt, fmt.Sprintf("bystander:%v", c.Bystander))
		ctx.Judge(rt, "reconnect", runCase(c), c)
	})
}

func TestPropXidRouting(t *testing.T) {
	n := 0
	ctx.Check(t, func(rt *rapid.T) {
		if n++; n > slowCap() {
			return
		}
		c := Case{Kind: "xid-routing", Sessions: rapid.IntRange(2, 4).Draw(rt, "sessions")}
		ctx.Rec.Case("xid-routing", true, fmt.Sprint(c.Sessions), c, "kind:xid-routing")
		ctx.Judge(rt, "xid-routing", runCase(c), c)
	})
}

func TestMain(m *testing.M) {
	boot.Init("XID")
	tc = faketc.New("")
	ctx.Rec.SetRule("part A: rapid-generated histories (≤24 actions) over one session registry: open(address from 4), close (connection died, still registered), remove (released), select(policy ∈ 5 + unknown, xid ∈ {ip:port:id of any of the 4 addresses, malformed strings}); after every select: result ∈ registered open sessions, nil ⇔ none open, XID policy returns the session of ip:port when one is open. Part B: reconnect histories OnOpen·work·OnClose·OnOpen (1–3 losses; idle or between phase one and phase two of a TCC branch) judged on the fake coordinator's per-session journal (RegisterTM, RegisterRM naming every registered resource, new begin works, phase two of the pre-loss branch reaches the action); XID routing of the second phase with 2–4 sessions to different addresses. Non-trivial (A): the session set changed between two selects. Distinct by action sequence.")
	ctx.Rec.Assume("dubbo-getty's reconnect timer is represented by its callbacks OnOpen/OnClose (DESIGN §5 C19 L)", "randomised policies are judged for membership only")
	ctx.RunWitnesses(func(f stats.Finding) *pt.Failure {
		var c Case
		if err := json.Unmarshal(f.Witness, &c); err != nil {
			return nil
		}
		return runCase(c)
	})
	ctx.Main(m)
}

func TestPropReplaySaved(t *testing.T) {
	ctx.ReplayAll(t, func(v *stats.Violation) *pt.Failure {
		var c Case
		if err := json.Unmarshal(v.Case, &c); err != nil {
			return pt.Failf("C19/replay", "bad case: %v", err)
		}
		return runCase(c)
	})
}

func TestReplay(t *testing.T) {
	var c Case
	v, ok := pt.Replay(t, &c)
	if !ok {
		t.Skip("no VERIF_REPLAY_FILE")
	}
	defer ctx.Rec.Flush()
	ctx.Rec.Case("replay", true, string(v.Case), c)
	ctx.Judge(t, v.Test, runCase(c), c)
}
