// C08 — undo-log encoding is lossless under every serializer and compressor setting.
package c08

import (
	"bytes"
	"database/sql"
	"database/sql/driver"
	"encoding/json"
	"fmt"
	"math"
	"sort"
	"strings"
	"testing"
	"time"

	"pgregory.net/rapid"

	"seata.apache.org/seata-go/pkg/compressor"
	"seata.apache.org/seata-go/pkg/datasource/sql/types"
	"seata.apache.org/seata-go/pkg/datasource/sql/undo"
	"seata.apache.org/seata-go/pkg/datasource/sql/undo/base"
	"seata.apache.org/seata-go/pkg/datasource/sql/undo/parser"

	"verifharness/pt"
	"verifharness/stats"
)

var ctx = pt.New("C08")

// Value is one cell as the row scanner produces it. Kind: nil | string | int64 | float64 | time | bytes.
type Value struct {
	Kind  string  `json:"kind"`
	S     string  `json:"s,omitempty"`
	I     int64   `json:"i,omitempty"`
	F     float64 `json:"f,omitempty"`
	T     string  `json:"t,omitempty"` // RFC3339Nano
	B     []byte  `json:"b,omitempty"`
	Class string  `json:"class"` // hostile class name
}

type Col struct {
	Name  string `json:"name"`
	MySQL string `json:"mysql"` // information_schema DATA_TYPE
	PK    bool   `json:"pk,omitempty"`
}

type Log struct {
	SQLType int       `json:"sql_type"` // types.SQLTypeInsert / Update / Delete
	Table   string    `json:"table"`
	Cols    []Col     `json:"cols"`
	Before  [][]Value `json:"before"` // rows × cols (nil for insert)
	After   [][]Value `json:"after"`
}

type Case struct {
	Layer      string `json:"layer"` // parser | pipeline | compressor
	Serializer string `json:"serializer"`
	Compress   string `json:"compress"`
	// CompressOff: compress.enable is false (and the threshold huge) while a compressor type is configured:
	// whatever the writer decides to do, the context it records must let the reader get the log back
	CompressOff bool `json:"compress_off,omitempty"`
	// Reconfigured: between the flush and the read the process is configured with the other serializer and another compressor
	Reconfigured bool   `json:"reconfigured,omitempty"`
	Logs         []Log  `json:"logs,omitempty"`
	Data         []byte `json:"data,omitempty"` // compressor layer
}

// goKind is the Go value kind the AT row scanner (baseExecutor.GetScanSlice + getSqlNullValue) yields
// for an information_schema DATA_TYPE; transcribed from reading that switch.
func goKind(mysqlType string) string {
	switch strings.ToUpper(mysqlType) {
	case "VARCHAR", "CHAR", "TEXT", "JSON", "TINYTEXT":
		return "string"
	case "BIT", "INT", "SMALLINT", "TINYINT", "BIGINT", "MEDIUMINT":
		return "int64"
	case "DATE", "DATETIME", "TIMESTAMP":
		return "time"
	case "DECIMAL", "DOUBLE", "FLOAT":
		return "float64"
	}
	return "bytes" // sql.RawBytes: BLOB family, BINARY/VARBINARY, MEDIUMTEXT, LONGTEXT, ENUM, SET
}

var mysqlTypes = []string{"VARCHAR", "CHAR", "TEXT", "TINYTEXT", "JSON", "BIT", "TINYINT", "SMALLINT", "MEDIUMINT", "INT", "BIGINT",
	"FLOAT", "DOUBLE", "DECIMAL", "DATE", "DATETIME", "TIMESTAMP", "BLOB", "TINYBLOB", "MEDIUMBLOB", "VARBINARY", "BINARY", "MEDIUMTEXT", "LONGTEXT", "ENUM", "SET"}

func (v Value) goValue() interface{} {
	switch v.Kind {
	case "nil":
		return nil
	case "string":
		return v.S
	case "int64":
		return v.I
	case "float64":
		return v.F
	case "time":
		t, err := time.Parse(time.RFC3339Nano, v.T)
		if err != nil {
			panic(err)
		}
		return t
	case "bytes":
		return sql.RawBytes(append([]byte{}, v.B...)) // a non-NULL empty value is a non-nil empty slice
	}
	panic("kind " + v.Kind)
}

func (c Case) build() *undo.BranchUndoLog {
	b := &undo.BranchUndoLog{Xid: "127.0.0.1:8091:4242", BranchID: 1 << 40}
	for _, l := range c.Logs {
		img := func(rows [][]Value) *types.RecordImage {
			if rows == nil {
				return nil
			}
			ri := &types.RecordImage{TableName: l.Table, SQLType: types.SQLType(l.SQLType), Rows: []types.RowImage{}}
			for _, r := range rows {
				row := types.RowImage{Columns: []types.ColumnImage{}}
				for k, col := range l.Cols {
					kt := types.IndexTypeNull
					if col.PK {
						kt = types.IndexTypePrimaryKey
					}
					row.Columns = append(row.Columns, types.ColumnImage{KeyType: kt, ColumnName: col.Name, ColumnType: types.MySQLStrToJavaType(col.MySQL), Value: r[k].goValue()})
				}
				ri.Rows = append(ri.Rows, row)
			}
			return ri
		}
		b.Logs = append(b.Logs, undo.SQLUndoLog{SQLType: types.SQLType(l.SQLType), TableName: l.Table, BeforeImage: img(l.Before), AfterImage: img(l.After)})
	}
	return b
}

// argValue normalises a Go value the way database/sql's default converter hands it to a driver:
// integer kinds → int64, floats → float64, []byte / named byte slices → []byte, string, time.Time, nil.
func argValue(v interface{}) interface{} {
	switch x := v.(type) {
	case nil:
		return nil
	case int8:
		return int64(x)
	case int16:
		return int64(x)
	case int32:
		return int64(x)
	case int:
		return int64(x)
	case int64:
		return x
	case uint8:
		return int64(x)
	case float32:
		return float64(x)
	case float64:
		return x
	case sql.RawBytes:
		return []byte(x)
	case []byte:
		return x
	case string:
		return x
	case time.Time:
		return x
	case bool:
		return x
	}
	return v
}

// sameValue: what the undo executors would hand to the driver must denote the same database value.
func sameValue(want, got interface{}) bool {
	w, g := argValue(want), argValue(got)
	switch a := w.(type) {
	case nil:
		return g == nil
	case int64:
		switch b := g.(type) {
		case int64:
			return a == b
		case float64: // an integral float with exactly that value is the same number to the database
			return b == math.Trunc(b) && math.Abs(b) < 1<<63 && int64(b) == a && float64(a) == b
		}
		return false
	case float64:
		switch b := g.(type) {
		case float64:
			return a == b
		case int64:
			return float64(b) == a && int64(a) == b
		}
		return false
	case []byte:
		switch b := g.(type) {
		case []byte:
			return bytes.Equal(a, b)
		case string:
			return string(a) == b
		}
		return false
	case string:
		switch b := g.(type) {
		case string:
			return a == b
		case []byte:
			return a == string(b)
		}
		return false
	case time.Time:
		b, ok := g.(time.Time)
		return ok && a.Equal(b)
	}
	return false
}

func compareLogs(c Case, want, got *undo.BranchUndoLog) *pt.Failure {
	sig := func(what string) string { return "C08/" + c.Layer + "/" + c.Serializer + "/" + what }
	if got == nil {
		return pt.Failf(sig("nil"), "decoded log is nil")
	}
	if c.Layer == "pipeline" {
		// FlushUndoLog leaves out records of statements that touched no row (nothing to undo); the
		// property is about the recorded rows, so such records are not expected back
		kept := *want
		kept.Logs = nil
		var meta []Log
		for li, l := range want.Logs {
			rows := 0
			if l.BeforeImage != nil {
				rows += len(l.BeforeImage.Rows)
			}
			if l.AfterImage != nil {
				rows += len(l.AfterImage.Rows)
			}
			if rows > 0 {
				kept.Logs = append(kept.Logs, l)
				if li < len(c.Logs) {
					meta = append(meta, c.Logs[li])
				}
			}
		}
		want = &kept
		c.Logs = meta
	}
	if got.Xid != want.Xid || got.BranchID != want.BranchID || len(got.Logs) != len(want.Logs) {
		return pt.Failf(sig("header"), "xid/branch/log count differ: got %q %d %d", got.Xid, got.BranchID, len(got.Logs))
	}
	for i := range want.Logs {
		wl, gl := want.Logs[i], got.Logs[i]
		if wl.SQLType != gl.SQLType || wl.TableName != gl.TableName {
			return pt.Failf(sig("log-header"), "log %d: sql type/table differ", i)
		}
		for side, pair := range map[string][2]*types.RecordImage{"before": {wl.BeforeImage, gl.BeforeImage}, "after": {wl.AfterImage, gl.AfterImage}} {
			w, g := pair[0], pair[1]
			if (w == nil) != (g == nil) {
				if w != nil && len(w.Rows) == 0 || g != nil && len(g.Rows) == 0 {
					continue // nil image vs image without rows: same to the executors
				}
				return pt.Failf(sig("image-presence"), "log %d %s image: want nil=%v got nil=%v", i, side, w == nil, g == nil)
			}
			if w == nil {
				continue
			}
			if len(w.Rows) != len(g.Rows) {
				return pt.Failf(sig("row-count"), "log %d %s image: %d rows, want %d", i, side, len(g.Rows), len(w.Rows))
			}
			for r := range w.Rows {
				wc, gc := w.Rows[r].Columns, g.Rows[r].Columns
				if len(wc) != len(gc) {
					return pt.Failf(sig("column-dropped"), "log %d %s row %d: %d columns decoded, %d encoded", i, side, r, len(gc), len(wc))
				}
				for k := range wc {
					if wc[k].ColumnName != gc[k].ColumnName || wc[k].ColumnType != gc[k].ColumnType || wc[k].KeyType != gc[k].KeyType {
						return pt.Failf(sig("column-header"), "log %d %s row %d col %d: name/type/key differ: got %q %d %v want %q %d %v", i, side, r, k, gc[k].ColumnName, gc[k].ColumnType, gc[k].KeyType, wc[k].ColumnName, wc[k].ColumnType, wc[k].KeyType)
					}
					if !sameValue(wc[k].Value, gc[k].Value) {
						cls := c.Logs[i].valueClass(side, r, k)
						return pt.Failf(sig(fmt.Sprintf("value/%s/%s", goKind(c.Logs[i].Cols[k].MySQL), rootClass(cls))), "log %d %s row %d column %s (%s, jdbc %d, class %s): wrote %T(%.80v), read back %T(%.80v)", i, side, r, wc[k].ColumnName, c.Logs[i].Cols[k].MySQL, wc[k].ColumnType, cls, wc[k].Value, wc[k].Value, gc[k].Value, gc[k].Value)
					}
				}
			}
		}
	}
	return nil
}

// rootClass folds value classes into the classes that matter for a signature (root causes, not inputs).
func rootClass(cls string) string {
	switch cls {
	case "beyond-2^53", "int64-extreme":
		return "integer-beyond-2^53"
	case "unsigned-upper-half":
		return cls
	case "base64-looking", "json-looking":
		return "text-that-is-valid-base64"
	}
	return "any"
}

func (l Log) valueClass(side string, r, k int) string {
	rows := l.After
	if side == "before" {
		rows = l.Before
	}
	return rows[r][k].Class
}

// ---- capturing connection for the pipeline layer ---------------------------------------------

type capConn struct{ args []driver.Value }
type capStmt struct{ c *capConn }
type capRes struct{}

func (c *capConn) Prepare(q string) (driver.Stmt, error) { return &capStmt{c}, nil }
func (c *capConn) Close() error                          { return nil }
func (c *capConn) Begin() (driver.Tx, error)             { return nil, fmt.Errorf("unused") }
func (s *capStmt) Close() error                          { return nil }
func (s *capStmt) NumInput() int                         { return -1 }
func (s *capStmt) Exec(a []driver.Value) (driver.Result, error) {
	s.c.args = append([]driver.Value(nil), a...)
	return capRes{}, nil
}
func (s *capStmt) Query(a []driver.Value) (driver.Rows, error) { return nil, fmt.Errorf("unused") }
func (capRes) LastInsertId() (int64, error)                    { return 0, nil }
func (capRes) RowsAffected() (int64, error)                    { return 1, nil }

func runCase(c Case) *pt.Failure {
	return pt.Guard("C08/"+c.Layer+"/"+c.Serializer, func() *pt.Failure {
		switch c.Layer {
		case "compressor":
			cp := compressor.CompressorType(c.Compress).GetCompressor()
			z, err := cp.Compress(c.Data)
			if err != nil {
				return pt.Failf("C08/compressor/"+c.Compress+"/compress-error", "Compress: %v", err)
			}
			// a second log is compressed (and a first one expanded) before the first result is used: the
			// bytes handed out earlier must still be what they were
			other := append([]byte("another undo log "), c.Data...)
			z2, err := compressor.CompressorType(c.Compress).GetCompressor().Compress(other)
			if err != nil {
				return pt.Failf("C08/compressor/"+c.Compress+"/compress-error", "Compress: %v", err)
			}
			back, err := cp.Decompress(z)
			if err != nil || !bytes.Equal(back, c.Data) {
				return pt.Failf("C08/compressor/"+c.Compress+"/roundtrip", "Decompress(Compress(%d bytes)) err=%v equal=%v (another Compress ran in between)", len(c.Data), err, bytes.Equal(back, c.Data))
			}
			back2, err := cp.Decompress(z2)
			if err != nil || !bytes.Equal(back2, other) {
				return pt.Failf("C08/compressor/"+c.Compress+"/roundtrip-second", "second log: err=%v equal=%v", err, bytes.Equal(back2, other))
			}
			if !bytes.Equal(back, c.Data) {
				return pt.Failf("C08/compressor/"+c.Compress+"/result-aliased", "the first expanded log changed after the second Decompress")
			}
			return nil
		case "parser":
			p, err := parser.GetCache().Load(c.Serializer)
			if err != nil {
				return pt.Failf("C08/parser/"+c.Serializer+"/load", "%v", err)
			}
			want := c.build()
			enc, err := p.Encode(c.build())
			if err != nil {
				return pt.Failf("C08/parser/"+c.Serializer+"/encode-error", "Encode: %v", err)
			}
			// another branch's log is encoded before the first result is used (the flush of one branch and the
			// next): the bytes handed out earlier must still be what they were
			snapshot := append([]byte(nil), enc...)
			other := c.build()
			other.Xid += "-other"
			other.BranchID++
			if _, err := p.Encode(other); err != nil {
				return pt.Failf("C08/parser/"+c.Serializer+"/encode-error", "Encode: %v", err)
			}
			if !bytes.Equal(enc, snapshot) {
				return pt.Failf("C08/parser/"+c.Serializer+"/result-aliased", "the encoded log changed when another log was encoded")
			}
			got, err := p.Decode(enc)
			if err != nil {
				return pt.Failf("C08/parser/"+c.Serializer+"/decode-error", "Decode: %v", err)
			}
			return compareLogs(c, want, got)
		case "pipeline":
			undo.InitUndoConfig(undo.Config{DataValidation: true, LogSerialization: c.Serializer, LogTable: "undo_log", OnlyCareUpdateColumns: true,
				CompressConfig: undo.CompressConfig{Enable: c.Compress != "" && c.Compress != "None" && !c.CompressOff, Type: c.Compress, Threshold: map[bool]string{false: "0", true: "64m"}[c.CompressOff]}})
			want := c.build()
			src := c.build()
			tx := &types.TransactionContext{XID: want.Xid, BranchID: want.BranchID, RoundImages: &types.RoundRecordImage{}}
			for _, l := range src.Logs {
				b, a := l.BeforeImage, l.AfterImage
				if b == nil {
					b = &types.RecordImage{TableName: l.TableName, SQLType: l.SQLType}
				}
				if a == nil {
					a = &types.RecordImage{TableName: l.TableName, SQLType: l.SQLType}
				}
				tx.RoundImages.AppendBeofreImage(b)
				tx.RoundImages.AppendAfterImage(a)
			}
			conn := &capConn{}
			m := base.NewBaseUndoLogManager()
			if err := m.FlushUndoLog(tx, conn); err != nil {
				return pt.Failf("C08/pipeline/"+c.Serializer+"/flush-error", "FlushUndoLog: %v", err)
			}
			if len(conn.args) != 5 {
				return pt.Failf("C08/pipeline/"+c.Serializer+"/no-insert", "FlushUndoLog wrote nothing (%d args)", len(conn.args))
			}
			ctxCol, _ := conn.args[2].([]byte)
			info, _ := conn.args[3].([]byte)
			if c.Reconfigured {
				// the process is reconfigured between phase one and rollback (other serializer, other compressor):
				// the context stored beside the log decides how it is read, not the current configuration
				other := map[string]string{"json": "protobuf", "protobuf": "json"}[c.Serializer]
				otherComp := map[bool]string{true: "Gzip", false: "None"}[c.Compress == "" || c.Compress == "None" || c.CompressOff]
				undo.InitUndoConfig(undo.Config{DataValidation: true, LogSerialization: other, LogTable: "undo_log", OnlyCareUpdateColumns: true,
					CompressConfig: undo.CompressConfig{Enable: otherComp != "None", Type: otherComp, Threshold: "0"}})
			}
			got, err := m.DecodeForVerif(ctxCol, info)
			if err != nil {
				return pt.Failf("C08/pipeline/"+c.Serializer+"/compress="+c.Compress+"/decode-error", "what phase one wrote (context %q, %d bytes) cannot be read by rollback: %v", ctxCol, len(info), err)
			}
			return compareLogs(c, want, got)
		}
		return pt.Failf("C08/harness", "layer %q", c.Layer)
	})
}

// ---- generators ------------------------------------------------------------------------------

type classed struct {
	class string
	v     Value
}

func stringClasses() []classed {
	mk := func(cl, s string) classed { return classed{cl, Value{Kind: "string", S: s, Class: cl}} }
	return []classed{mk("empty", ""), mk("base64-looking", "test"), mk("base64-looking", "MTIz"), mk("base64-looking", "abcd"), mk("base64-looking", "QUJD"),
		mk("numeric-looking", "123"), mk("numeric-looking", "-1.5e3"), mk("json-looking", `{"a":1}`), mk("json-looking", `[1,"x"]`), mk("json-looking", "null"),
		mk("multi-byte", "中文😀é"), mk("plain", "hello world"), mk("quotes", `a"b\c'd`), mk("whitespace", " \t\n"), mk("not-base64", "ab"), mk("plain", "Seata-go!")}
}

// intDomain is the value range of an integer column type, signed and unsigned variants together
// (the scanner reads both into int64).
func intDomain(mysqlType string) (lo, hi int64) {
	switch mysqlType {
	case "TINYINT":
		return -128, 255
	case "SMALLINT":
		return -32768, 65535
	case "MEDIUMINT":
		return -(1 << 23), 1<<24 - 1
	case "INT":
		return -(1 << 31), 1<<32 - 1
	}
	return -1 << 63, 1<<63 - 1 // BIGINT, BIT(64)
}

func drawInt(t *rapid.T, mysqlType string) Value {
	lo, hi := intDomain(mysqlType)
	cands := []int64{0, 1, -1, 127, 128, 255, 32767, 32768, 65535, 1<<31 - 1, 1 << 31, 1<<32 - 1, 1 << 53, 1<<53 + 1, -(1<<53 + 1), 1<<63 - 1, -1 << 63, lo, hi}
	var ok []int64
	for _, c := range cands {
		if c >= lo && c <= hi {
			ok = append(ok, c)
		}
	}
	v := rapid.OneOf(rapid.SampledFrom(ok), rapid.Int64Range(lo, hi)).Draw(t, "int")
	cls := "small"
	signedHi := map[string]int64{"TINYINT": 127, "SMALLINT": 32767, "MEDIUMINT": 1<<23 - 1, "INT": 1<<31 - 1}
	switch {
	case v > 1<<53 || v < -(1<<53):
		cls = "beyond-2^53"
	case signedHi[mysqlType] != 0 && v > signedHi[mysqlType]:
		cls = "unsigned-upper-half"
	case v > 1000 || v < -1000:
		cls = "mid"
	}
	return Value{Kind: "int64", I: v, Class: cls}
}

func drawValue(t *rapid.T, kind, mysqlType string) Value {
	if rapid.IntRange(0, 7).Draw(t, "null?") == 0 {
		return Value{Kind: "nil", Class: "null"}
	}
	switch kind {
	case "string":
		if rapid.Bool().Draw(t, "free") {
			s := rapid.StringN(0, 10, 40).Draw(t, "str")
			return Value{Kind: "string", S: s, Class: "free-form"}
		}
		return rapid.SampledFrom(stringClasses()).Draw(t, "strClass").v
	case "int64":
		return drawInt(t, mysqlType)
	case "float64":
		type fv struct {
			c string
			v float64
		}
		x := rapid.OneOf(rapid.SampledFrom([]fv{{"zero", 0}, {"simple", 1.5}, {"simple", -2.25}, {"float32-only", float64(float32(0.1))}, {"float32-only", float64(float32(16777217))}, {"needs-float64", 0.1}, {"needs-float64", 8899.778}, {"extreme", 1e300}, {"extreme", 5e-324}, {"integral", 42}, {"integral-beyond-2^53", 1e17}}),
			rapid.Map(rapid.Float64Range(-1e12, 1e12), func(v float64) fv { return fv{"random", v} })).Draw(t, "float")
		return Value{Kind: "float64", F: x.v, Class: x.c}
	case "time":
		type tv struct{ c, v string }
		x := rapid.SampledFrom([]tv{{"utc-seconds", "2024-02-29T12:34:56Z"}, {"ns-precision", "2024-02-29T12:34:56.123456789Z"}, {"micro-precision", "2001-01-01T00:00:00.000001Z"},
			{"non-utc", "2024-06-01T08:00:00+08:00"}, {"non-utc", "1999-12-31T23:59:59.5-05:30"}, {"epoch", "1970-01-01T00:00:00Z"}, {"far", "9999-12-31T23:59:59Z"}, {"date-only", "2024-02-29T00:00:00Z"}}).Draw(t, "time")
		return Value{Kind: "time", T: x.v, Class: x.c}
	default:
		type bv struct {
			c string
			v []byte
		}
		x := rapid.OneOf(rapid.SampledFrom([]bv{{"empty", []byte{}}, {"ascii", []byte("hello")}, {"nul-ff", []byte{0, 0xff, 0, 0xfe}}, {"utf8", []byte("中文")}, {"base64-looking", []byte("dGVzdA==")}, {"single", []byte{0x80}}}),
			rapid.Map(rapid.SliceOfN(rapid.Byte(), 0, 40), func(b []byte) bv { return bv{"random", b} })).Draw(t, "bytes")
		return Value{Kind: "bytes", B: x.v, Class: x.c}
	}
}

func drawLog(t *rapid.T, i int) Log {
	l := Log{Table: rapid.SampledFrom([]string{"t_user", "T_ORDER", "c1_t", "表"}).Draw(t, "table"),
		SQLType: rapid.SampledFrom([]int{int(types.SQLTypeInsert), int(types.SQLTypeUpdate), int(types.SQLTypeDelete)}).Draw(t, "sqlType")}
	nc := rapid.IntRange(1, 5).Draw(t, "nCols")
	for k := 0; k < nc; k++ {
		l.Cols = append(l.Cols, Col{Name: fmt.Sprintf("c%d", k), MySQL: rapid.SampledFrom(mysqlTypes).Draw(t, "mysqlType"), PK: k == 0})
	}
	rows := func(label string) [][]Value {
		n := rapid.IntRange(0, 3).Draw(t, label)
		out := [][]Value{}
		for r := 0; r < n; r++ {
			var row []Value
			for _, c := range l.Cols {
				row = append(row, drawValue(t, goKind(c.MySQL), c.MySQL))
			}
			out = append(out, row)
		}
		return out
	}
	switch types.SQLType(l.SQLType) {
	case types.SQLTypeInsert:
		l.After = rows("afterRows")
	case types.SQLTypeDelete:
		l.Before = rows("beforeRows")
	default:
		l.Before = rows("beforeRows")
		l.After = rows("afterRows")
	}
	return l
}

var compressTypes = []string{"None", "Gzip", "Zip", "Bzip2", "Lz4", "Deflate", "Zstd", "zip", "GZIP", "", "Sevenz", "Snappy"}

func record(test string, c Case) {
	hostile := map[string]bool{}
	var multiset []string
	for _, l := range c.Logs {
		for _, rows := range [][][]Value{l.Before, l.After} {
			for _, r := range rows {
				for k, v := range r {
					if v.Class != "plain" && v.Class != "small" && v.Class != "simple" && v.Class != "mid" && v.Class != "random" && v.Class != "free-form" {
						hostile[v.Class] = true
					}
					multiset = append(multiset, l.Cols[k].MySQL+"/"+v.Class)
				}
			}
		}
	}
	sort.Strings(multiset)
	labels := []string{"layer:" + c.Layer, "serializer:" + c.Serializer, "compress:" + c.Compress}
	for h := range hostile {
		labels = append(labels, "class:"+h)
	}
	ctx.Rec.Case(test, len(hostile) > 0, fmt.Sprintf("%s|%s|%v", c.Serializer, c.Compress, multiset), c, labels...)
}

func TestMain(m *testing.M) {
	ctx.Rec.SetRule("generator: BranchUndoLog values of 1–3 SQL undo logs × 0–3 rows × 1–5 columns; column type drawn from the information_schema DATA_TYPE names MySQLStrToJavaType maps (26 names → every JDBC code it can emit), value of the Go kind the AT row scanner yields for that type (string / int64 / float64 / time.Time / sql.RawBytes / nil) from hostile classes ('' , 'test' and other base64-looking, numeric- and JSON-looking, multi-byte, quotes; 2^53±1, int64 extremes; float32-only and float64-only values, extremes; ns-precision and non-UTC times; binary with 0x00/0xff); serializer {json, protobuf} × compress type {None, Gzip, Zip, Bzip2, Lz4, Deflate, Zstd, zip, GZIP, '', Sevenz, Snappy}. Layers: parser Decode(Encode(x)), compressor Decompress(Compress(b)), pipeline = real FlushUndoLog into a capturing driver.Conn then hook H4 DecodeForVerif(context, rollback_info). Equality: tables, SQL types, row/column order, key flags, and values equal after database/sql's default argument conversion (exact integers). Non-trivial: ≥1 value from a hostile class. Distinct by (serializer, compress type, multiset of (column type, value class)).")
	ctx.Rec.Assume("Go value kinds per column type are transcribed from baseExecutor.GetScanSlice/getSqlNullValue (props/c08 goKind)", "the executors' own DeepEqual (numeric via float64) is deliberately not used: the database distinguishes 2^53 and 2^53+1")
	ctx.RunWitnesses(func(f stats.Finding) *pt.Failure {
		var c Case
		if err := json.Unmarshal(f.Witness, &c); err != nil {
			return nil
		}
		return runCase(c)
	})
	ctx.Main(m)
}

func drawLogs(t *rapid.T) []Log {
	n := rapid.IntRange(1, 3).Draw(t, "nLogs")
	var ls []Log
	for i := 0; i < n; i++ {
		ls = append(ls, drawLog(t, i))
	}
	return ls
}

func TestPropParserRoundTrip(t *testing.T) {
	ctx.Check(t, func(rt *rapid.T) {
		c := Case{Layer: "parser", Serializer: rapid.SampledFrom([]string{"json", "protobuf"}).Draw(rt, "serializer"), Logs: drawLogs(rt)}
		record("parser", c)
		ctx.Judge(rt, "parser", runCase(c), c)
	})
}

func TestPropPipeline(t *testing.T) {
	ctx.Check(t, func(rt *rapid.T) {
		c := Case{Layer: "pipeline", Serializer: rapid.SampledFrom([]string{"json", "protobuf"}).Draw(rt, "serializer"),
			Compress: rapid.SampledFrom(compressTypes).Draw(rt, "compress"), Logs: drawLogs(rt), CompressOff: rapid.IntRange(0, 3).Draw(rt, "compressOff") == 0,
			Reconfigured: rapid.IntRange(0, 3).Draw(rt, "reconfigured") == 0}
		// FlushUndoLog skips transactions without any imaged row: make sure there is one
		has := false
		for _, l := range c.Logs {
			has = has || len(l.Before) > 0 || len(l.After) > 0
		}
		if !has {
			return
		}
		record("pipeline", c)
		ctx.Judge(rt, "pipeline", runCase(c), c)
	})
}

func TestPropCompressors(t *testing.T) {
	ctx.Check(t, func(rt *rapid.T) {
		var data []byte
		switch rapid.IntRange(0, 2).Draw(rt, "dataKind") {
		case 0:
			data = rapid.SliceOfN(rapid.Byte(), 0, 300).Draw(rt, "data")
		case 1:
			data = bytes.Repeat([]byte(rapid.SampledFrom([]string{"a", "ab", "{\"x\":1}", "\x00"}).Draw(rt, "unit")), rapid.IntRange(0, 5000).Draw(rt, "rep"))
		default:
			data = []byte(rapid.StringN(0, 200, 800).Draw(rt, "text"))
		}
		c := Case{Layer: "compressor", Compress: rapid.SampledFrom(compressTypes).Draw(rt, "compress"), Data: data}
		s := c
		if len(s.Data) > 64 {
			s.Data = s.Data[:64]
		}
		ctx.Rec.Case("compressor", len(data) > 0, fmt.Sprintf("%s|%d|%x", c.Compress, len(data), stats.Hash(string(data))), s, "layer:compressor", "compress:"+c.Compress)
		ctx.Judge(rt, "compressor", runCase(c), c)
	})
}

func TestPropReplaySaved(t *testing.T) {
	ctx.ReplayAll(t, func(v *stats.Violation) *pt.Failure {
		var c Case
		if err := json.Unmarshal(v.Case, &c); err != nil {
			return pt.Failf("C08/replay", "bad case: %v", err)
		}
		return runCase(c)
	})
}

func TestReplay(t *testing.T) {
	var c Case
	v, ok := pt.Replay(t, &c)
	if !ok {
		t.Skip("no VERIF_REPLAY_FILE")
	}
	defer ctx.Rec.Flush()
	record("replay", c)
	ctx.Judge(t, v.Test, runCase(c), c)
}
