package c08

import (
	"encoding/json"
	"testing"

	"seata.apache.org/seata-go/pkg/datasource/sql/types"
)

// wellTyped reports whether s is a column document of the shape phase one writes:
// keyType and name strings, type a number; the value may be anything.
func wellTyped(s string) bool {
	var m map[string]interface{}
	if json.Unmarshal([]byte(s), &m) != nil {
		return false
	}
	_, a := m["keyType"].(string)
	_, b := m["name"].(string)
	f, c := m["type"].(float64)
	return a && b && c && f == float64(int16(f))
}

// FuzzColumnImageJSON: the column decoder rollback runs on stored JSON must not panic on a
// well-typed document whose value has the JSON kind phase one writes for that column type, and
// what it accepts must be re-encodable and decodable again.
func FuzzColumnImageJSON(f *testing.F) {
	f.Add(`{"keyType":"PRIMARY_KEY","name":"id","type":-5,"value":9007199254740993}`)
	f.Add(`{"keyType":"NULL","name":"n","type":12,"value":"dGVzdA=="}`)
	f.Add(`{"keyType":"NULL","name":"f","type":7,"value":1.5}`)
	f.Add(`{"keyType":"NULL","name":"t","type":93,"value":"2024-02-29T12:34:56.123456789Z"}`)
	f.Add(`{"keyType":"NULL","name":"b","type":-4,"value":"AP8="}`)
	f.Add(`{"keyType":"NULL","name":"x","type":1111,"value":null}`)
	f.Fuzz(func(t *testing.T, s string) {
		if !wellTyped(s) {
			return
		}
		var m map[string]interface{}
		_ = json.Unmarshal([]byte(s), &m)
		jt := types.JDBCType(int16(m["type"].(float64)))
		_, isStr := m["value"].(string)
		_, isNum := m["value"].(float64)
		switch jt {
		case types.JDBCTypeTinyInt, types.JDBCTypeSmallInt, types.JDBCTypeInteger, types.JDBCTypeBigInt, types.JDBCTypeBit, types.JDBCTypeReal, types.JDBCTypeDouble, types.JDBCTypeDecimal:
			if m["value"] != nil && !isNum {
				return // phase one writes numbers for numeric columns
			}
		case types.JDBCTypeChar, types.JDBCTypeVarchar, types.JDBCTypeLongVarchar, types.JDBCTypeDate, types.JDBCTypeTime, types.JDBCTypeTimestamp,
			types.JDBCTypeBinary, types.JDBCTypeVarBinary, types.JDBCTypeLongVarBinary:
			if m["value"] != nil && !isStr {
				return // phase one writes strings for character, temporal and binary columns
			}
		}
		var c types.ColumnImage
		if err := json.Unmarshal([]byte(s), &c); err != nil { // must not panic
			return
		}
		b, err := json.Marshal(&c)
		if err != nil {
			t.Fatalf("decoded column of %q cannot be re-encoded: %v", s, err)
		}
		var d types.ColumnImage
		if err := json.Unmarshal(b, &d); err != nil {
			t.Fatalf("re-encoded column %s (from %q) not decodable: %v", b, s, err)
		}
	})
}
