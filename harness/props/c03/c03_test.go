// C03 — global lock keys cover every written row; locking reads consult the coordinator.
package c03

import (
	"context"
	"database/sql"
	"encoding/json"
	"errors"
	"fmt"
	"os"
	"regexp"
	"sort"
	"strings"
	"testing"
	"time"

	"pgregory.net/rapid"

	"seata.apache.org/seata-go/pkg/protocol/message"
	"seata.apache.org/seata-go/pkg/tm"

	"verifharness/atenv"
	"verifharness/faketc"
	"verifharness/gen"
	"verifharness/memsql"
	"verifharness/pt"
	"verifharness/stats"
)

var (
	ctx = pt.New("C03")
	env *atenv.Env
)

type Case struct {
	Kind   string          `json:"kind"` // completeness | canonical | overlap
	Tables []gen.TableSpec `json:"tables"`
	// completeness
	Branch gen.Branch `json:"branch,omitempty"`
	// AutoStep: the server's auto_increment_increment for this case (0 = 1); it differs between the cases of a process
	AutoStep int64 `json:"auto_increment_increment,omitempty"`
	// canonical: the forms (insert update select_for_update upsert delete) in the order they touch one row
	Forms []string `json:"forms,omitempty"`
	// overlap
	T1Kind  string `json:"t1_kind,omitempty"`  // update | delete | insert
	T2Kind  string `json:"t2_kind,omitempty"`  // select_for_update | update | delete
	T2Mode  string `json:"t2_mode,omitempty"`  // auto | tx
	Overlap bool   `json:"overlap,omitempty"`  // T2 touches the row T1 holds
	T1Ends  string `json:"t1_ends,omitempty"`  // commit | rollback
	T2Shape string `json:"t2_shape,omitempty"` // "" (WHERE id = ?) | order-limit (… ORDER BY v DESC LIMIT 1: the row read is not the first in key order)
	// T2Keep: T2's caller ignores the refused statement, carries on and commits its local transaction
	T2Keep  bool   `json:"t2_keep,omitempty"`
	T1Phase string `json:"t1_phase,omitempty"` // committed (local commit done, global lock held) | open (local transaction open: local row lock held, no global lock yet)
}

func texts(names []string, br gen.Branch) []atenv.StmtText {
	var out []atenv.StmtText
	for _, s := range br.Stmts {
		out = append(out, atenv.StmtText{SQL: s.Text(names), Args: s.GoArgs(), Query: s.Kind == "select_for_update"})
	}
	return out
}

func setup(c Case) ([]string, *pt.Failure) {
	n := atenv.NextCase()
	var names []string
	for i, tb := range c.Tables {
		name := atenv.TableName(n, i)
		names = append(names, name)
		if _, err := env.Bare.Exec(tb.DDL(name)); err != nil {
			return names, pt.Failf("C03/harness/setup", "%v", err)
		}
		if q := tb.InsertRows(name); q != "" {
			if _, err := env.Bare.Exec(q); err != nil {
				return names, pt.Failf("C03/harness/setup", "%v: %s", err, q)
			}
		}
	}
	return names, nil
}

// keyText renders a row's primary key the way a lock key names it: values joined by "_".
func keyText(tb gen.TableSpec, row map[string]memsql.Value) string {
	var parts []string
	for _, p := range tb.PK {
		switch v := row[p].(type) {
		case int64:
			parts = append(parts, fmt.Sprint(v))
		case string:
			parts = append(parts, v)
		default:
			parts = append(parts, fmt.Sprint(v))
		}
	}
	return strings.Join(parts, "_")
}

// lockRows parses "T:k1,k2;T2:k" into a set of "T:k" (table upper-cased).
func lockRows(lockKey string) map[string]bool {
	out := map[string]bool{}
	for _, k := range faketc.SplitLockKey(lockKey) {
		if i := strings.Index(k, ":"); i >= 0 && i < len(k)-1 {
			out[k] = true // (an entry without any key text after "table:" names no row)
		}
	}
	return out
}

type obs struct {
	written  int
	conflict bool
	detail   string
}

var last obs

func runCase(c Case) *pt.Failure {
	return pt.Guard("C03/crash", func() *pt.Failure {
		last = obs{}
		env.ResetCase()
		env.CleanUndo()
		atenv.UndoConfig("json", "None", true, true)
		env.TC.LockMode = c.Kind == "overlap"
		defer func() { env.TC.LockMode = false }()
		switch c.Kind {
		case "completeness":
			return runCompleteness(c)
		case "canonical":
			return runCanonical(c)
		case "overlap":
			return runOverlap(c)
		}
		return pt.Failf("C03/harness", "kind %q", c.Kind)
	})
}

// runCompleteness: every row the local transaction wrote is named by the lock keys registered before its commit.
func runCompleteness(c Case) *pt.Failure {
	env.Srv.SetAutoIncStep(c.AutoStep)
	defer env.Srv.SetAutoIncStep(1)
	names, fl := setup(c)
	if fl != nil {
		return fl
	}
	defer env.DropTables(names)
	env.Srv.ResetJournal()
	var res atenv.BranchResult
	_, _ = atenv.Global("c03", func(cx context.Context) error {
		res = atenv.RunBranch(cx, env.AT, c.Branch.Mode, c.Branch.Via, false, texts(names, c.Branch))
		return nil
	})
	if os.Getenv("VERIF_DEBUG") != "" {
		fmt.Printf("DEBUG result %+v\n%s\n", res, atenv.Tail(env.Srv.Journal(), 30))
	}
	// one timeline of engine statements and coordinator messages (shared logical clock)
	type item struct {
		seq int64
		je  *memsql.Entry
		reg *message.BranchRegisterRequest
	}
	var tl []item
	journal := env.Srv.Journal()
	for i := range journal {
		tl = append(tl, item{seq: journal[i].Seq, je: &journal[i]})
	}
	for _, e := range env.TC.Events() {
		if b, ok := e.Body.(message.BranchRegisterRequest); ok && e.Dir == "c2s" {
			b := b
			tl = append(tl, item{seq: e.Seq, reg: &b})
		}
	}
	sort.Slice(tl, func(i, j int) bool { return tl[i].seq < tl[j].seq })
	// per connection: writes of the open local transaction; at its COMMIT (or at once for a statement
	// outside any transaction) they must be covered by the lock keys registered since the previous commit
	pending := map[int]map[string]string{}
	inTx := map[int]bool{}
	registered := map[string]bool{}
	var raw []string
	var missing []string
	settle := func(conn int) {
		for k, st := range pending[conn] {
			last.written++
			if !registered[k] {
				missing = append(missing, k+"  ← "+st)
			}
		}
		delete(pending, conn)
		registered = map[string]bool{}
	}
	for _, it := range tl {
		if it.reg != nil {
			for k := range lockRows(it.reg.LockKey) {
				registered[k] = true
			}
			raw = append(raw, it.reg.LockKey)
			continue
		}
		e := it.je
		switch e.Kind {
		case "BEGIN":
			if e.Err == "" {
				inTx[e.Conn] = true
			}
		case "ROLLBACK":
			delete(pending, e.Conn)
			inTx[e.Conn] = false
		case "COMMIT":
			if e.Err == "" {
				settle(e.Conn)
			} else {
				delete(pending, e.Conn)
			}
			inTx[e.Conn] = false
		case "E", "PE":
			if e.Err != "" || strings.Contains(strings.ToLower(e.Query), "undo_log") {
				continue
			}
			for _, w := range e.Writes {
				for ti, n := range names {
					if !strings.EqualFold(n, w.Table) {
						continue
					}
					if pending[e.Conn] == nil {
						pending[e.Conn] = map[string]string{}
					}
					if w.Before != nil {
						pending[e.Conn][strings.ToUpper(n)+":"+keyText(c.Tables[ti], w.Before)] = e.String()
					}
					if w.After != nil {
						pending[e.Conn][strings.ToUpper(n)+":"+keyText(c.Tables[ti], w.After)] = e.String()
					}
				}
			}
			if !inTx[e.Conn] {
				settle(e.Conn)
			}
		}
	}
	sort.Strings(missing)
	if len(missing) > 0 {
		return pt.Failf("C03/missing-lock-key/"+c.Branch.Mode+"/"+stmtKinds(c.Branch), "rows committed without a global lock key registered before the commit (lock keys registered in this global transaction: %q):\n  %s\ncaller saw %+v\n%s", raw, strings.Join(missing, "\n  "), res, atenv.Tail(journal, 30))
	}
	return nil
}

func stmtKinds(br gen.Branch) string {
	var ks []string
	for _, s := range br.Stmts {
		ks = append(ks, s.Kind)
	}
	sort.Strings(ks)
	return strings.Join(ks, "+")
}

// runCanonical: one row is touched, in separate global transactions, by every statement form; all
// lock key texts for that row must be the same string.
func runCanonical(c Case) *pt.Failure {
	names, fl := setup(c)
	if fl != nil {
		return fl
	}
	defer env.DropTables(names)
	tb := c.Tables[0]
	tn := names[0]
	// the row: a fresh key with one value per column
	rowVals := map[string]gen.Lit{}
	for i, col := range tb.Cols {
		switch {
		case i < len(tb.PK) && (col.Base == "VARCHAR"):
			rowVals[col.Name] = gen.Lit{Kind: "str", S: "Key77"}
		case i < len(tb.PK):
			rowVals[col.Name] = gen.Lit{Kind: "int", I: 4242}
		default:
			rowVals[col.Name] = defaultFor(col)
		}
	}
	var cols, ph, pkConds []string
	var allArgs, pkArgs []interface{}
	for _, col := range tb.Cols {
		cols = append(cols, gen.Q(col.Name))
		ph = append(ph, "?")
		allArgs = append(allArgs, rowVals[col.Name].Arg())
	}
	for _, p := range tb.PK {
		pkConds = append(pkConds, p+" = ?")
		pkArgs = append(pkArgs, rowVals[p].Arg())
	}
	nonKey := tb.Cols[len(tb.PK)]
	expected := strings.ToUpper(tn) + ":" + func() string {
		var parts []string
		for _, p := range tb.PK {
			parts = append(parts, fmt.Sprint(rowVals[p].Arg()))
		}
		return strings.Join(parts, "_")
	}()
	exists := false
	seen := map[string]string{} // form -> key text
	for _, form := range c.Forms {
		var q string
		var args []interface{}
		query := false
		switch form {
		case "insert":
			if exists {
				continue
			}
			q, args = "INSERT INTO "+tn+" ("+strings.Join(cols, ", ")+") VALUES ("+strings.Join(ph, ", ")+")", allArgs
		case "update":
			if !exists {
				continue
			}
			q, args = "UPDATE "+tn+" SET "+gen.Q(nonKey.Name)+" = ? WHERE "+strings.Join(pkConds, " AND "), append([]interface{}{bump(nonKey)}, pkArgs...)
		case "select_for_update":
			if !exists {
				continue
			}
			q, args, query = "SELECT * FROM "+tn+" WHERE "+strings.Join(pkConds, " AND ")+" FOR UPDATE", pkArgs, true
		case "upsert":
			q, args = "INSERT INTO "+tn+" ("+strings.Join(cols, ", ")+") VALUES ("+strings.Join(ph, ", ")+") ON DUPLICATE KEY UPDATE "+gen.Q(nonKey.Name)+" = VALUES("+gen.Q(nonKey.Name)+")", append(append([]interface{}{}, allArgs[:len(tb.PK)]...), bumpAll(tb)...)
		case "delete":
			if !exists {
				continue
			}
			q, args = "DELETE FROM "+tn+" WHERE "+strings.Join(pkConds, " AND "), pkArgs
		}
		env.TC.Reset()
		var res atenv.BranchResult
		_, _ = atenv.Global("c03", func(cx context.Context) error {
			res = atenv.RunBranch(cx, env.AT, "auto", "db", false, []atenv.StmtText{{SQL: q, Args: args, Query: query}})
			return nil
		})
		if res.Failed() {
			return pt.Failf("C03/canonical/statement-failed/"+form, "%s %v failed: %s", q, args, res.FirstErr())
		}
		var keys []string
		for _, e := range env.TC.Events() {
			if e.Dir != "c2s" {
				continue
			}
			switch b := e.Body.(type) {
			case message.BranchRegisterRequest:
				for k := range lockRows(b.LockKey) {
					keys = append(keys, k)
				}
			case message.GlobalLockQueryRequest:
				for k := range lockRows(b.LockKey) {
					keys = append(keys, k)
				}
			}
		}
		switch form {
		case "insert", "upsert":
			exists = true
		case "delete":
			exists = false
		}
		if form == "upsert" && len(keys) == 0 {
			// an upsert that changes nothing writes nothing
			continue
		}
		if len(keys) != 1 {
			return pt.Failf("C03/canonical/key-count/"+form, "%s on one row produced lock keys %q", form, keys)
		}
		seen[form] = keys[0]
		last.written++
	}
	for form, k := range seen {
		if k != expected {
			return pt.Failf("C03/canonical/key-text/"+form+"/"+tb.KeyShape, "the row's lock key as produced by %s is %q, expected %q (all forms: %v)", form, k, expected, seen)
		}
	}
	return nil
}

func defaultFor(col gen.ColSpec) gen.Lit {
	switch col.Base {
	case "INT", "BIGINT", "TINYINT", "SMALLINT":
		return gen.Lit{Kind: "int", I: 1}
	case "DECIMAL", "DOUBLE", "FLOAT":
		return gen.Lit{Kind: "float", F: 1.5}
	case "DATETIME", "DATE":
		return gen.Lit{Kind: "time", S: "2020-01-01T00:00:00Z"}
	case "VARBINARY", "BLOB":
		return gen.Lit{Kind: "bytes", B: []byte("b")}
	}
	return gen.Lit{Kind: "str", S: "v"}
}

func bump(col gen.ColSpec) interface{} {
	switch col.Base {
	case "INT", "BIGINT", "TINYINT", "SMALLINT":
		return int64(2)
	case "DECIMAL", "DOUBLE", "FLOAT":
		return 2.5
	case "DATETIME", "DATE":
		return time.Date(2021, 1, 1, 0, 0, 0, 0, time.UTC)
	case "VARBINARY", "BLOB":
		return []byte("c")
	}
	return "w"
}

func bumpAll(tb gen.TableSpec) []interface{} {
	var out []interface{}
	for _, col := range tb.Cols[len(tb.PK):] {
		v := bump(col)
		if i, ok := v.(int64); ok {
			v = i + 1
		}
		out = append(out, v)
	}
	return out
}

// runOverlap: T1 holds the global lock of a row (committed locally, global transaction still open);
// T2 then reads-for-update or writes the same or another row.
func runOverlap(c Case) *pt.Failure {
	tb := gen.TableSpec{KeyShape: "int", Cols: []gen.ColSpec{{Name: "id", Type: "INT", Base: "INT"}, {Name: "v", Type: "INT", Base: "INT", Nullable: true}}, PK: []string{"id"},
		Rows: [][]gen.Lit{{{Kind: "int", I: 1}, {Kind: "int", I: 10}}, {{Kind: "int", I: 2}, {Kind: "int", I: 20}}, {{Kind: "int", I: 3}, {Kind: "int", I: 30}}}}
	c.Tables = []gen.TableSpec{tb}
	names, fl := setup(c)
	if fl != nil {
		return fl
	}
	defer env.DropTables(names)
	tn := names[0]
	t1Row, t2Row := int64(1), int64(2)
	if c.Overlap {
		t2Row = 1
	}
	if c.T1Kind == "insert" {
		t1Row = 7
		if c.Overlap {
			t2Row = 7
		}
	}
	t2Query := "SELECT * FROM " + tn + " WHERE id = ? FOR UPDATE"
	t2Args := []interface{}{t2Row}
	// (only with T1's local transaction committed: a range scan FOR UPDATE legitimately waits for every
	// row lock it meets, also on rows it does not return)
	if c.T2Shape == "order-limit" && c.T2Kind == "select_for_update" && c.T1Kind == "update" && c.T1Phase != "open" {
		// the row with the largest v is row 3; T1 holds it (overlap) or row 1
		t2Row, t1Row = 3, 1
		if c.Overlap {
			t1Row = 3
		}
		t2Query, t2Args = "SELECT * FROM "+tn+" WHERE v > ? ORDER BY v DESC LIMIT 1 FOR UPDATE", []interface{}{int64(0)}
	}
	var t2Err error
	var t2Rows []string
	var t2Res atenv.BranchResult
	t2Committed := false
	locksAfterT2 := map[int]int{}
	locksInT2 := map[int][]string{}
	var t1res atenv.BranchResult
	errT1End := errors.New("t1 decides to roll back")
	xid1, _ := atenv.Global("c03-t1", func(cx1 context.Context) error {
		var q string
		var args []interface{}
		switch c.T1Kind {
		case "delete":
			q, args = "DELETE FROM "+tn+" WHERE id = ?", []interface{}{t1Row}
		case "insert":
			q, args = "INSERT INTO "+tn+" (id, v) VALUES (?, ?)", []interface{}{t1Row, 70}
		default:
			q, args = "UPDATE "+tn+" SET v = v + 1 WHERE id = ?", []interface{}{t1Row}
		}
		var t1tx *sql.Tx
		if c.T1Phase == "open" {
			var err error
			if t1tx, err = env.AT.BeginTx(cx1, nil); err != nil {
				t1res.BeginErr = err.Error()
				return err
			}
			if _, err = t1tx.ExecContext(cx1, q, args...); err != nil {
				t1res.Stmts = append(t1res.Stmts, atenv.StmtResult{Err: err.Error()})
				_ = t1tx.Rollback()
				return err
			}
			defer func() {
				if c.T1Ends == "rollback" {
					_ = t1tx.Rollback()
				} else if err := t1tx.Commit(); err != nil {
					t1res.CommitErr = err.Error()
				}
			}()
		} else {
			t1res = atenv.RunBranch(cx1, env.AT, "auto", "db", false, []atenv.StmtText{{SQL: q, Args: args}})
			if t1res.Failed() {
				return errors.New(t1res.FirstErr())
			}
		}
		// ---- T2, a different global transaction, while T1 still holds its global locks
		_, t2Err = atenv.Global("c03-t2", func(cx2 context.Context) error {
			var stmts []atenv.StmtText
			if c.T2Mode == "tx" {
				// an earlier write of T2's local transaction on an unrelated row
				stmts = append(stmts, atenv.StmtText{SQL: "UPDATE " + tn + " SET v = v + 100 WHERE id = ?", Args: []interface{}{int64(3)}})
			}
			switch c.T2Kind {
			case "select_for_update":
				stmts = append(stmts, atenv.StmtText{SQL: t2Query, Args: t2Args, Query: true})
			case "delete":
				stmts = append(stmts, atenv.StmtText{SQL: "DELETE FROM " + tn + " WHERE id = ?", Args: []interface{}{t2Row}})
			default:
				stmts = append(stmts, atenv.StmtText{SQL: "UPDATE " + tn + " SET v = v + 5 WHERE id = ?", Args: []interface{}{t2Row}})
			}
			t2Res = atenv.RunBranchOpt(cx2, env.AT, atenv.BranchOpts{Mode: c.T2Mode, Via: "db", KeepGoing: c.T2Keep && c.T2Mode == "tx", Probe: func(i int, r atenv.StmtResult) {
				// the local row locks inside T2's still open local transaction, right after its last statement
				if i == len(stmts)-1 {
					locksInT2 = env.Srv.LockedRows()
				}
			}}, stmts)
			if t2Res.Failed() {
				return errors.New(t2Res.FirstErr())
			}
			t2Rows = t2Res.Stmts[len(t2Res.Stmts)-1].Rows
			return nil
		})
		if c.T2Keep && c.T2Mode == "tx" && t2Res.BeginErr == "" && t2Res.CommitErr == "" {
			t2Committed = true
		}
		locksAfterT2 = env.Srv.RowLocks()
		if c.T1Ends == "rollback" {
			return errT1End
		}
		return nil
	})
	_ = xid1
	info := fmt.Sprintf("T1 %s row %d (local transaction "+c.T1Phase+", global tx open), then T2 %s/%s row %d; T2 result: %+v err=%v\n%s", c.T1Kind, t1Row, c.T2Kind, c.T2Mode, t2Row, t2Res, t2Err, atenv.Tail(env.Srv.Journal(), 24))
	if t1res.Failed() {
		return pt.Failf("C03/harness/t1-failed", "%s", info)
	}
	allowed := 0
	if c.T1Phase == "open" {
		allowed = 1 // T1's own connection
	}
	// a refused locking read gives back the row locks it took although the local transaction stays open:
	// the connection that holds T2's earlier write (row 3) must not hold the refused row any more
	if c.Overlap && c.T2Kind == "select_for_update" && c.T2Mode == "tx" && t2Err != nil {
		for id, rows := range locksInT2 {
			holds3, holdsRefused := false, false
			for _, k := range rows {
				if k == "i:3" {
					holds3 = true
				}
				if k == fmt.Sprintf("i:%d", t2Row) {
					holdsRefused = true
				}
			}
			if holds3 && holdsRefused && t2Row != 3 {
				return pt.Failf("C03/overlap/refused-read-keeps-row-lock", "the locking read of row %d was refused (%v) but connection %d still holds its row lock inside the open local transaction: %v\n%s", t2Row, t2Err, id, rows, info)
			}
		}
	}
	if len(locksAfterT2) > allowed {
		return pt.Failf("C03/overlap/row-locks-left/"+c.T2Kind+"/"+c.T2Mode, "after T2 returned, connections still hold local row locks: %v\n%s", locksAfterT2, info)
	}
	if l := env.Srv.RowLocks(); len(l) != 0 {
		return pt.Failf("C03/overlap/row-locks-left-at-end/"+c.T2Kind+"/"+c.T2Mode, "after both transactions ended, connections still hold local row locks: %v\n%s", l, info)
	}
	if _, open, _ := env.Srv.Stats(); open != 0 {
		return pt.Failf("C03/overlap/transaction-left-open/"+c.T2Kind+"/"+c.T2Mode, "engine transaction left open on %v\n%s", env.Srv.OpenTxConns(), info)
	}
	lockQueries := 0
	queried := map[string]bool{}
	for _, e := range env.TC.Events() {
		if b, ok := e.Body.(message.GlobalLockQueryRequest); ok && e.Dir == "c2s" {
			lockQueries++
			for k := range lockRows(b.LockKey) {
				queried[k] = true
			}
		}
	}
	// the rows a locking read hands out are the rows it asked the coordinator about
	if c.T2Kind == "select_for_update" && t2Err == nil {
		for _, r := range t2Rows {
			if m := regexp.MustCompile(`\bid=\S*?(\d+)`).FindStringSubmatch(r); m != nil {
				if k := strings.ToUpper(tn) + ":" + m[1]; !queried[k] {
					return pt.Failf("C03/overlap/returned-row-not-queried/"+c.T2Shape, "the locking read returned row %s, the lock query named %v\n%s", m[1], queried, info)
				}
			}
		}
	}
	last.conflict = c.Overlap
	if c.Overlap {
		if t2Err == nil {
			return pt.Failf("C03/overlap/conflict-not-detected/"+c.T2Kind+"/"+c.T2Mode, "T2 touched a row whose global lock is held by T1 and succeeded\n%s", info)
		}
		if c.T2Kind == "select_for_update" && lockQueries == 0 && c.T1Phase != "open" {
			return pt.Failf("C03/overlap/no-lock-query", "SELECT … FOR UPDATE failed without asking the coordinator\n%s", info)
		}
	} else {
		if t2Err != nil {
			return pt.Failf("C03/overlap/spurious-conflict/"+c.T2Kind+"/"+c.T2Mode, "T2 touched an unlocked row but failed: %v\n%s", t2Err, info)
		}
		if c.T2Kind == "select_for_update" {
			if lockQueries == 0 {
				return pt.Failf("C03/overlap/no-lock-query", "SELECT … FOR UPDATE inside a global transaction returned rows without asking the coordinator\n%s", info)
			}
			// rows equal the bare driver's
			r := atenvQuery(env.Bare, "SELECT * FROM "+tn+" WHERE id = ?", t2Row) // (order-limit: row 3 has the largest v)
			if strings.Join(r, ";") != strings.Join(t2Rows, ";") {
				return pt.Failf("C03/overlap/rows-differ", "locking read returned %v, the table has %v\n%s", t2Rows, r, info)
			}
		}
	}
	if t2Committed {
		// T2 carried on after the refused statement and committed: its earlier write (row 3) is durable, and then
		// its lock key must have been registered before that commit
		v3 := int64(-1)
		for _, r := range env.Srv.Rows(atenv.Schema, tn) {
			if id, _ := r["id"].(int64); id == 3 {
				v3, _ = r["v"].(int64)
			}
		}
		if v3 != 30 {
			registered := false
			for _, e := range env.TC.Events() {
				if b, ok := e.Body.(message.BranchRegisterRequest); ok && e.Dir == "c2s" && lockRows(b.LockKey)[strings.ToUpper(tn)+":3"] {
					registered = true
				}
			}
			if !registered {
				return pt.Failf("C03/overlap/missing-lock-key-after-refused-statement/"+c.T2Kind, "T2 ignored the refused statement and committed its earlier write (row 3 v=%d), no branch registration names %s:3\n%s", v3, strings.ToUpper(tn), info)
			}
		}
		return nil
	}
	// T2's write to a row locked by T1 never reached COMMIT: T2's effects are absent
	if c.Overlap && c.T2Kind != "select_for_update" {
		for _, r := range env.Srv.Rows(atenv.Schema, tn) {
			if id, _ := r["id"].(int64); id == 3 {
				if v, _ := r["v"].(int64); v != 30 {
					return pt.Failf("C03/overlap/partial-commit/"+c.T2Mode, "T2 was refused but its earlier write in the same local transaction is committed (row 3 v=%d)\n%s", v, info)
				}
			}
		}
	}
	return nil
}

func atenvQuery(db *sql.DB, q string, args ...interface{}) []string {
	rows, err := db.Query(q, args...)
	if err != nil {
		return []string{"ERR " + err.Error()}
	}
	defer rows.Close()
	cols, _ := rows.Columns()
	var out []string
	for rows.Next() {
		vals := make([]interface{}, len(cols))
		ptrs := make([]interface{}, len(cols))
		for i := range vals {
			ptrs[i] = &vals[i]
		}
		_ = rows.Scan(ptrs...)
		s := ""
		for i, v := range vals {
			if b, ok := v.([]byte); ok {
				v = string(b)
			}
			s += fmt.Sprintf("%s=%s ", cols[i], memsql.RenderValue(v))
		}
		out = append(out, s)
	}
	return out
}

func stmtOptions() gen.StmtOptions {
	return gen.StmtOptions{ForceParamStrings: true, NoNullAutoKey: true, NoUpsertOnUnique: true, Kinds: []string{"insert", "update", "update", "delete", "upsert"}}
}

func TestMain(m *testing.M) {
	env = atenv.Get(atenv.Options{})
	env.Srv.SetLockWait(150 * time.Millisecond)
	_ = tm.GetXID
	ctx.Rec.SetRule("part A completeness: AT branch programs as in C01 (single branch; autocommit or explicit transaction of 1–3 statements); ground truth = the engine's write set of the committed local transaction (inserted / updated / deleted rows by table and key); the (table, key) pairs parsed from BranchRegisterRequest.LockKey must contain it and be sent before COMMIT. Part A canonical: one row (4 key shapes) is touched in separate global transactions by INSERT, UPDATE, SELECT … FOR UPDATE (GlobalLockQuery), upsert and DELETE in a generated order; every produced key text must equal TABLE:k1[_k2] of the row. Part B overlap: T1 writes a row and keeps its global transaction open (global lock held in the coordinator's lock table), T2 (another global transaction) reads-for-update, updates or deletes the same or another row, in autocommit or inside an explicit transaction with an earlier write; the harness owns the order (all steps are synchronous calls). Oracle B: overlap ⇒ T2 fails, nothing of T2 is committed, no local row lock or engine transaction is left; no overlap ⇒ T2 succeeds, a locking read asked the coordinator and returns the rows of the bare driver. Non-trivial: write set non-empty (A) / a real conflict (B). Distinct by (key shape, statement kinds, overlap pattern, modes).")
	ctx.Rec.Assume("key values avoid the separator characters _ , ; (ambiguity there is inherent in the format); a colon inside a key value is generated: only the first colon of an entry separates the table", "coordinator lock table as modelled by faketc (LockMode)")
	ctx.RunWitnesses(func(f stats.Finding) *pt.Failure {
		var c Case
		if err := json.Unmarshal(f.Witness, &c); err != nil {
			return nil
		}
		return runCase(c)
	})
	ctx.Main(m)
}

func TestPropCompleteness(t *testing.T) {
	ctx.Check(t, func(rt *rapid.T) {
		tables := []gen.TableSpec{gen.DrawTable(rt, 0)}
		br := gen.Branch{Mode: rapid.SampledFrom([]string{"auto", "tx"}).Draw(rt, "mode"), Via: rapid.SampledFrom([]string{"db", "conn"}).Draw(rt, "via")}
		ns := 1
		if br.Mode == "tx" || br.Via == "conn" {
			ns = rapid.IntRange(1, 3).Draw(rt, "nStmts")
			if br.Mode == "auto" && ns >= 2 && rapid.IntRange(0, 2).Draw(rt, "mixed") == 0 {
				br.Mode = "mixed"
			}
		}
		for i := 0; i < ns; i++ {
			br.Stmts = append(br.Stmts, gen.DrawStmt(rt, tables, stmtOptions()))
		}
		c := Case{Kind: "completeness", Tables: tables, Branch: br, AutoStep: rapid.SampledFrom([]int64{0, 0, 1, 2, 5}).Draw(rt, "autoStep")}
		fl := runCase(c)
		var ks []string
		for _, s := range br.Stmts {
			ks = append(ks, s.Kind+"/"+s.Where)
		}
		ctx.Rec.Case("completeness", last.written > 0, tables[0].KeyShape+"|"+br.Mode+"|"+strings.Join(ks, "+"), c, "kind:completeness", "key:"+tables[0].KeyShape)
		ctx.Judge(rt, "completeness", fl, c)
	})
}

func TestPropCanonical(t *testing.T) {
	ctx.Check(t, func(rt *rapid.T) {
		tables := []gen.TableSpec{gen.DrawTable(rt, 0)}
		tables[0].Unique = nil
		forms := rapid.Permutation([]string{"insert", "update", "select_for_update", "upsert", "delete", "upsert", "update"}).Draw(rt, "forms")
		c := Case{Kind: "canonical", Tables: tables, Forms: forms}
		fl := runCase(c)
		ctx.Rec.Case("canonical", last.written >= 2, tables[0].KeyShape+"|"+strings.Join(forms, ","), c, "kind:canonical", "key:"+tables[0].KeyShape)
		ctx.Judge(rt, "canonical", fl, c)
	})
}

func TestPropOverlap(t *testing.T) {
	ctx.Check(t, func(rt *rapid.T) {
		c := Case{Kind: "overlap", T1Kind: rapid.SampledFrom([]string{"update", "delete", "insert"}).Draw(rt, "t1"),
			T2Kind: rapid.SampledFrom([]string{"select_for_update", "select_for_update", "update", "delete"}).Draw(rt, "t2"),
			T2Mode: rapid.SampledFrom([]string{"auto", "tx"}).Draw(rt, "t2mode"), Overlap: rapid.Bool().Draw(rt, "overlap"),
			T1Ends:  rapid.SampledFrom([]string{"commit", "rollback"}).Draw(rt, "t1ends"),
			T1Phase: rapid.SampledFrom([]string{"committed", "committed", "open"}).Draw(rt, "t1phase"),
			T2Shape: rapid.SampledFrom([]string{"", "", "order-limit"}).Draw(rt, "t2shape"), T2Keep: rapid.IntRange(0, 3).Draw(rt, "t2keep") == 0}
		if c.T1Kind == "delete" && c.Overlap && c.T2Kind != "select_for_update" {
			c.T2Kind = "select_for_update" // the row is gone for T2's write; a locking read still has to ask
		}
		if c.T1Kind == "delete" && c.Overlap {
			c.Overlap = false // nothing left to overlap on: T2 reads another row
		}
		fl := runCase(c)
		b, _ := json.Marshal(c)
		ctx.Rec.Case("overlap", c.Overlap, string(b), c, "kind:overlap", fmt.Sprintf("overlap:%v", c.Overlap), "t2:"+c.T2Kind+"/"+c.T2Mode)
		ctx.Judge(rt, "overlap", fl, c)
	})
}

func TestPropReplaySaved(t *testing.T) {
	ctx.ReplayAll(t, func(v *stats.Violation) *pt.Failure {
		var c Case
		if err := json.Unmarshal(v.Case, &c); err != nil {
			return pt.Failf("C03/replay", "bad case: %v", err)
		}
		return runCase(c)
	})
}

func TestReplay(t *testing.T) {
	var c Case
	v, ok := pt.Replay(t, &c)
	if !ok {
		t.Skip("no VERIF_REPLAY_FILE")
	}
	defer ctx.Rec.Flush()
	fl := runCase(c)
	ctx.Rec.Case("replay", true, string(v.Case), c)
	ctx.Judge(t, v.Test, fl, c)
}
