// C11 — phase-two commit deletes exactly the committed branch's undo log, eventually.
package c11

import (
	"context"
	"database/sql"
	"encoding/json"
	"fmt"
	"os"
	"sort"
	"strings"
	"sync/atomic"
	"testing"
	"time"

	"github.com/prometheus/client_golang/prometheus"
	"pgregory.net/rapid"

	seatasql "seata.apache.org/seata-go/pkg/datasource/sql"
	"seata.apache.org/seata-go/pkg/datasource/sql/datasource"
	"seata.apache.org/seata-go/pkg/datasource/sql/undo"
	"seata.apache.org/seata-go/pkg/protocol/branch"
	"seata.apache.org/seata-go/pkg/rm"

	"verifharness/atenv"
	"verifharness/memsql"
	"verifharness/pt"
	"verifharness/stats"
)

var (
	ctx = pt.New("C11")
	env *atenv.Env
	seq int64
)

type Pair struct {
	Res      int    `json:"res"` // 0 = the shared resource, 1 = the per-case second resource
	Xid      string `json:"xid"`
	BranchID int64  `json:"branch_id"`
}

type Conf struct {
	BufferLimit     int `json:"buffer_limit"`
	IntervalMs      int `json:"interval_ms"`
	ReceiveChanSize int `json:"receive_chan_size"`
	Workers         int `json:"workers"`
	WorkerBuffer    int `json:"worker_buffer"`
}

type Case struct {
	Kind       string `json:"kind"` // worker (own AsyncWorker with generated settings) | real (through the registered resource manager)
	Conf       Conf   `json:"conf"`
	Rows       []Pair `json:"rows"`     // undo_log content before the requests
	Requests   []Pair `json:"requests"` // branch-commit requests, in order
	SecondRes  bool   `json:"second_res"`
	LateRes    bool   `json:"late_res"`    // the second resource is registered only after the requests were accepted
	DelFaults  int    `json:"del_faults"`  // the first n DELETEs on undo_log fail
	ConnFaults int    `json:"conn_faults"` // the first n connection attempts of the resource fail
	// MixedCase: the second resource's id contains upper-case letters (schema Orders_EU)
	MixedCase bool `json:"mixed_case,omitempty"`
	// LogTable: how the undo-log table is named in the configuration: "" = undo_log, or quoted / schema-qualified spellings
	LogTable string `json:"log_table,omitempty"`
}

type second struct {
	addr   string
	srv    *memsql.Server
	bare   *sql.DB
	resID  string
	schema string
	opened bool
}

func newSecond(schema string) *second {
	n := atomic.AddInt64(&seq, 1)
	s := &second{addr: fmt.Sprintf("10.1.%d.%d:3306", n/250, n%250+1)}
	s.srv = memsql.NewServer("8.0.30")
	s.schema = schema
	srvSchema[s.srv] = schema
	s.srv.CreateSchema(schema)
	memsql.Register(s.addr, s.srv)
	var err error
	if s.bare, err = sql.Open(memsql.DriverName, "u:p@tcp("+s.addr+")/"+schema+"?interpolateParams=true&parseTime=true"); err != nil {
		panic(err)
	}
	if _, err = s.bare.Exec(atenv.UndoLogDDL); err != nil {
		panic(err)
	}
	s.resID = "u:p@tcp(" + s.addr + ")/" + schema
	return s
}

func (s *second) open() {
	if s.opened {
		return
	}
	s.opened = true
	db, err := sql.Open(atenv.ATDriver, "u:p@tcp("+s.addr+")/"+s.schema+"?interpolateParams=true&parseTime=true")
	if err != nil {
		panic(err)
	}
	if err = db.Ping(); err != nil {
		panic(err)
	}
}

func insertUndo(db *sql.DB, p Pair) error {
	_, err := db.Exec("INSERT INTO undo_log (branch_id, xid, context, rollback_info, log_status, log_created, log_modified) VALUES (?, ?, 'serializer=json', x'7b7d', 0, now(6), now(6))", p.BranchID, p.Xid)
	return err
}

var srvSchema = map[*memsql.Server]string{}

func schemaOf(srv *memsql.Server) string {
	if n, ok := srvSchema[srv]; ok {
		return n
	}
	return atenv.Schema
}

func remaining(srv *memsql.Server) []string {
	var out []string
	for _, r := range srv.Rows(schemaOf(srv), "undo_log") {
		out = append(out, fmt.Sprintf("%v/%v", r["xid"], r["branch_id"]))
	}
	sort.Strings(out)
	return out
}

var last struct{ deleted, kept int }

var caseNo int64

// perCase makes the (xid, branch id) pairs of a case unique in the process: a commit worker of an earlier
// case may still carry out a deletion (the process-wide worker flushes once a second), and it must not be
// able to name a row of a later case. The suffix keeps the xids of one case distinct and prefix-related.
func perCase(c Case) Case {
	n := atomic.AddInt64(&caseNo, 1)
	out := c
	out.Rows = append([]Pair(nil), c.Rows...)
	out.Requests = append([]Pair(nil), c.Requests...)
	for i := range out.Rows {
		out.Rows[i].Xid += fmt.Sprintf("%06d", n)
	}
	for i := range out.Requests {
		out.Requests[i].Xid += fmt.Sprintf("%06d", n)
	}
	return out
}

func runCase(c Case) *pt.Failure {
	c = perCase(c)
	return pt.Guard("C11/crash", func() *pt.Failure {
		env.ResetCase()
		env.CleanUndo()
		if c.LogTable != "" {
			undo.InitUndoConfig(undo.Config{DataValidation: true, LogSerialization: "json", LogTable: c.LogTable, OnlyCareUpdateColumns: true})
			defer atenv.UndoConfig("json", "None", true, true)
		}
		srvs := []*memsql.Server{env.Srv}
		bares := []*sql.DB{env.Bare}
		resIDs := []string{env.ResourceID}
		var sec *second
		if c.SecondRes {
			schema := atenv.Schema
			if c.MixedCase {
				schema = "Orders_EU"
			}
			sec = newSecond(schema)
			if !c.LateRes {
				sec.open()
			}
			srvs = append(srvs, sec.srv)
			bares = append(bares, sec.bare)
			resIDs = append(resIDs, sec.resID)
		}
		for _, p := range c.Rows {
			if p.Res >= len(bares) {
				continue
			}
			if err := insertUndo(bares[p.Res], p); err != nil {
				return pt.Failf("C11/harness/setup", "%v", err)
			}
		}
		mgr := datasource.GetDataSourceManager(branch.BranchTypeAT)
		// every connection of the resource is a new one, so that connection faults can fire
		mgr.GetCachedResources().Range(func(k, v any) bool {
			if r, ok := v.(*seatasql.DBResource); ok && c.ConnFaults > 0 && r.GetDB() != nil {
				r.GetDB().SetMaxIdleConns(0)
			}
			return true
		})
		defer mgr.GetCachedResources().Range(func(k, v any) bool {
			if r, ok := v.(*seatasql.DBResource); ok && c.ConnFaults > 0 && r.GetDB() != nil {
				r.GetDB().SetMaxIdleConns(2)
			}
			return true
		})
		var commit func(p Pair) (branch.BranchStatus, error)
		interval := time.Duration(c.Conf.IntervalMs) * time.Millisecond
		if c.Kind == "real" {
			interval = time.Second
			commit = func(p Pair) (branch.BranchStatus, error) {
				return mgr.BranchCommit(context.Background(), rm.BranchResource{ResourceId: resIDs[p.Res], Xid: p.Xid, BranchId: p.BranchID, BranchType: branch.BranchTypeAT})
			}
		} else {
			aw := seatasql.NewAsyncWorker(prometheus.NewRegistry(), seatasql.AsyncWorkerConfig{BufferLimit: c.Conf.BufferLimit, BufferCleanInterval: interval,
				ReceiveChanSize: c.Conf.ReceiveChanSize, CommitWorkerCount: c.Conf.Workers, CommitWorkerBufferSize: c.Conf.WorkerBuffer}, mgr)
			commit = func(p Pair) (branch.BranchStatus, error) {
				return aw.BranchCommit(context.Background(), rm.BranchResource{ResourceId: resIDs[p.Res], Xid: p.Xid, BranchId: p.BranchID, BranchType: branch.BranchTypeAT})
			}
		}
		// faults
		for _, s := range srvs {
			if c.DelFaults > 0 {
				s.AddFault(&memsql.Fault{Times: c.DelFaults, Match: func(e *memsql.Entry) bool {
					return strings.HasPrefix(e.Upper(), "DELETE FROM UNDO_LOG")
				}})
			}
			if c.ConnFaults > 0 && !(c.LateRes && s != env.Srv) {
				s.AddFault(&memsql.Fault{Times: c.ConnFaults, Match: func(e *memsql.Entry) bool { return e.Kind == "CONNECT" }})
			}
		}
		defer func() {
			for _, s := range srvs {
				s.ClearFaults()
			}
		}()
		// the requests
		requested := map[string]bool{}
		for _, p := range c.Requests {
			if p.Res >= len(resIDs) {
				continue
			}
			type ans struct {
				st  branch.BranchStatus
				err error
			}
			ch := make(chan ans, 1)
			go func() {
				st, err := commit(p)
				ch <- ans{st, err}
			}()
			select {
			case a := <-ch:
				if a.err != nil || a.st != branch.BranchStatusPhasetwoCommitted {
					return pt.Failf("C11/not-answered-committed", "branch commit %+v answered (%v, %v)", p, a.st, a.err)
				}
			case <-time.After(5 * time.Second):
				return pt.Failf("C11/request-blocked/"+shape(c), "branch commit %+v did not return within 5s (queue pressure: %+v)", p, c.Conf)
			}
			requested[fmt.Sprintf("%d|%s/%d", p.Res, p.Xid, p.BranchID)] = true
		}
		if sec != nil && c.LateRes {
			time.Sleep(2 * interval)
			sec.open()
		}
		// expected content
		want := make([][]string, len(srvs))
		for _, p := range c.Rows {
			if p.Res >= len(srvs) {
				continue
			}
			if !requested[fmt.Sprintf("%d|%s/%d", p.Res, p.Xid, p.BranchID)] {
				want[p.Res] = append(want[p.Res], fmt.Sprintf("s:%q/i:%d", p.Xid, p.BranchID))
			}
		}
		last.deleted, last.kept = 0, 0
		for i := range want {
			sort.Strings(want[i])
			last.kept += len(want[i])
		}
		last.deleted = len(c.Rows) - last.kept
		// eventually: poll until the content is as expected; give up when the worker has been idle
		// (no statement on any server) for a long time or after the deadline
		deadline := time.Now().Add(6*time.Second + 20*interval)
		idleLimit := 30*interval + 300*time.Millisecond
		lastActivity := time.Now()
		seen := make([]int, len(srvs))
		for {
			ok := true
			for i, s := range srvs {
				got := strings.Join(renderRows(s), ",")
				if got != strings.Join(want[i], ",") {
					ok = false
				}
				if n := len(s.Journal()); n != seen[i] {
					seen[i] = n
					lastActivity = time.Now()
				}
			}
			if ok {
				break
			}
			if time.Since(lastActivity) > idleLimit || time.Now().After(deadline) {
				var sb strings.Builder
				for i, s := range srvs {
					fmt.Fprintf(&sb, "resource %d (%s): undo_log holds %v, expected %v\n", i, resIDs[i], renderRows(s), want[i])
				}
				cls := "lost"
				for i, s := range srvs {
					got := map[string]bool{}
					for _, r := range renderRows(s) {
						got[r] = true
					}
					for _, w := range want[i] {
						if !got[w] {
							cls = "foreign-undo-log-deleted"
						}
					}
				}
				why := "the worker went idle"
				if time.Now().After(deadline) {
					why = "deadline"
				}
				return pt.Failf("C11/"+cls+"/"+shape(c), "%s (%s; settings %+v, %d delete faults, %d connect faults, late resource %v)\n%s%s", cls, why, c.Conf, c.DelFaults, c.ConnFaults, c.LateRes, sb.String(), atenv.Tail(env.Srv.Journal(), 12))
			}
			time.Sleep(interval/2 + time.Millisecond)
		}
		// and it stays that way: a late duplicate must not delete anything else
		time.Sleep(3*interval + 5*time.Millisecond)
		for i, s := range srvs {
			if got := strings.Join(renderRows(s), ","); got != strings.Join(want[i], ",") {
				return pt.Failf("C11/foreign-undo-log-deleted/"+shape(c), "resource %d: undo_log holds %v, expected %v", i, renderRows(s), want[i])
			}
		}
		return nil
	})
}

func renderRows(s *memsql.Server) []string {
	var out []string
	for _, r := range s.Rows(schemaOf(s), "undo_log") {
		out = append(out, fmt.Sprintf("%s/%s", memsql.RenderValue(r["xid"]), memsql.RenderValue(r["branch_id"])))
	}
	sort.Strings(out)
	return out
}

func shape(c Case) string {
	var f []string
	if c.Kind == "real" {
		f = append(f, "real")
	}
	if c.DelFaults > 0 {
		f = append(f, "delete-fault")
	}
	if c.ConnFaults > 0 {
		f = append(f, "connect-fault")
	}
	if c.LateRes {
		f = append(f, "late-resource")
	}
	if len(c.Requests) > c.Conf.ReceiveChanSize && c.Kind != "real" {
		f = append(f, "queue-pressure")
	}
	if len(f) == 0 {
		return "plain"
	}
	return strings.Join(f, "+")
}

func TestMain(m *testing.M) {
	env = atenv.Get(atenv.Options{})
	ctx.Rec.SetRule("generator: undo_log content = subset of {x1,x2,x3}×{1,2,3} per resource (so branch ids are shared across xids and xids across branch ids), 1–2 resources (the second one optionally registered only after the requests were accepted); a sequence of 1–12 branch-commit requests (present pairs, absent pairs, duplicates); an AsyncWorker built with generated settings (buffer limit 1–20, clean interval 10–40 ms, receive channel 1–16, 1–4 workers, worker buffer 1–8) or, in 1 of 8 cases, the resource manager's own worker (default settings); the first 0–3 DELETEs on undo_log fail, the first 0–2 connection attempts fail. Oracle: every request returns (PhaseTwo_Committed, nil) within 5 s; eventually (polling; gives up when no statement reached any server for 30 intervals + 300 ms, or after 6 s + 20 intervals) undo_log of each resource == initial content minus the requested pairs, exactly; it still is after 3 more intervals. Non-trivial: ≥1 row deleted and ≥1 row that must stay. Distinct by (settings class, fault classes, request pattern).")
	ctx.Rec.Assume("liveness is judged with a generous bound: a worker that makes no progress while idle for 30 intervals is considered to have lost the request", "AsyncWorker goroutines cannot be stopped: they accumulate per case (bounded by the case count of a process)")
	ctx.RunWitnesses(func(f stats.Finding) *pt.Failure {
		var c Case
		if err := json.Unmarshal(f.Witness, &c); err != nil {
			return nil
		}
		return runCase(c)
	})
	ctx.Main(m)
}

var burstDone bool

// burstCase: more accepted commits for one resource than fit any batch bound (1000), in one flush; once per process.
func burstCase() Case {
	sh := 0
	if v := os.Getenv("VERIF_SHARD"); v != "" {
		fmt.Sscanf(v, "%d", &sh)
	}
	n := []int{1001, 2500, 1000, 2001}[sh%4]
	c := Case{Kind: "worker", Conf: Conf{BufferLimit: 10000, IntervalMs: 400, ReceiveChanSize: 64, Workers: 1 + sh%2, WorkerBuffer: 4}}
	for i := 0; i < n; i++ {
		p := Pair{Res: 0, Xid: fmt.Sprintf("192.168.0.1:8091:%d", 20+i%3), BranchID: int64(1000 + i)}
		c.Rows = append(c.Rows, p)
		c.Requests = append(c.Requests, p)
	}
	// a few rows that must stay
	for i := 0; i < 5; i++ {
		c.Rows = append(c.Rows, Pair{Res: 0, Xid: "192.168.0.1:8091:20", BranchID: int64(900000 + i)})
	}
	return c
}

func TestPropUndoLogDeletion(t *testing.T) {
	if !burstDone {
		burstDone = true
		c := burstCase()
		fl := runCase(c)
		ctx.Rec.Case("deletion", true, "burst", c, "shape:burst", "kind:worker")
		ctx.Judge(t, "deletion", fl, c)
	}
	ctx.Check(t, func(rt *rapid.T) {
		c := Case{Kind: "worker"}
		if rapid.IntRange(0, 7).Draw(rt, "real") == 0 {
			c.Kind = "real"
		}
		c.Conf = Conf{BufferLimit: rapid.IntRange(1, 20).Draw(rt, "bufferLimit"), IntervalMs: rapid.IntRange(10, 40).Draw(rt, "interval"),
			ReceiveChanSize: rapid.IntRange(1, 16).Draw(rt, "chan"), Workers: rapid.IntRange(1, 4).Draw(rt, "workers"), WorkerBuffer: rapid.IntRange(1, 8).Draw(rt, "workerBuffer")}
		c.SecondRes = rapid.IntRange(0, 3).Draw(rt, "second") == 0
		c.LateRes = c.SecondRes && rapid.Bool().Draw(rt, "late")
		c.MixedCase = c.SecondRes && rapid.Bool().Draw(rt, "mixedCase")
		c.LogTable = rapid.SampledFrom([]string{"", "", "", "`undo_log`", "db.undo_log", "`db`.`undo_log`"}).Draw(rt, "logTable")
		if c.SecondRes && c.MixedCase && strings.Contains(c.LogTable, ".") {
			c.LogTable = "`undo_log`" // the schema-qualified spelling names schema db, the second resource lives elsewhere
		}
		nres := 1
		if c.SecondRes {
			nres = 2
		}
		xids := []string{"192.168.0.1:8091:11", "192.168.0.1:8091:12", "192.168.0.1:8091:113"}
		for r := 0; r < nres; r++ {
			for _, x := range xids {
				for b := int64(1); b <= 3; b++ {
					if rapid.IntRange(0, 2).Draw(rt, "present") > 0 {
						c.Rows = append(c.Rows, Pair{Res: r, Xid: x, BranchID: b*11 + int64(rapid.IntRange(0, 1).Draw(rt, "big"))*1000000000000})
					}
				}
			}
		}
		nreq := rapid.IntRange(1, 12).Draw(rt, "nReq")
		for i := 0; i < nreq; i++ {
			if len(c.Rows) > 0 && rapid.IntRange(0, 4).Draw(rt, "fromRows") > 0 {
				c.Requests = append(c.Requests, rapid.SampledFrom(c.Rows).Draw(rt, "req"))
			} else {
				c.Requests = append(c.Requests, Pair{Res: rapid.IntRange(0, nres-1).Draw(rt, "res"), Xid: rapid.SampledFrom(xids).Draw(rt, "xid"), BranchID: int64(rapid.IntRange(1, 3).Draw(rt, "b")) * 11})
			}
		}
		if rapid.IntRange(0, 2).Draw(rt, "faults") == 0 {
			c.DelFaults = rapid.IntRange(1, 3).Draw(rt, "delFaults")
		}
		if rapid.IntRange(0, 3).Draw(rt, "connFaultsOn") == 0 {
			c.ConnFaults = rapid.IntRange(1, 2).Draw(rt, "connFaults")
		}
		fl := runCase(c)
		ctx.Rec.Case("deletion", last.deleted > 0 && last.kept > 0, fmt.Sprintf("%s|%d|%d|%d|%d|%d|%d", shape(c), c.Conf.BufferLimit/5, c.Conf.ReceiveChanSize/4, c.Conf.Workers, c.Conf.WorkerBuffer/3, len(c.Requests), len(c.Rows)), c, "shape:"+shape(c), "kind:"+c.Kind)
		ctx.Judge(rt, "deletion", fl, c)
	})
}

func TestPropReplaySaved(t *testing.T) {
	ctx.ReplayAll(t, func(v *stats.Violation) *pt.Failure {
		var c Case
		if err := json.Unmarshal(v.Case, &c); err != nil {
			return pt.Failf("C11/replay", "bad case: %v", err)
		}
		return runCase(c)
	})
}

func TestReplay(t *testing.T) {
	var c Case
	v, ok := pt.Replay(t, &c)
	if !ok {
		t.Skip("no VERIF_REPLAY_FILE")
	}
	defer ctx.Rec.Flush()
	fl := runCase(c)
	ctx.Rec.Case("replay", true, string(v.Case), c)
	ctx.Judge(t, v.Test, fl, c)
}
