// C09 — branch rollback never overwrites a foreign write.
package c09

import (
	"context"
	"encoding/json"
	"errors"
	"fmt"
	"os"
	"sort"
	"strconv"
	"strings"
	"testing"
	"time"

	"pgregory.net/rapid"

	"seata.apache.org/seata-go/pkg/protocol/branch"

	"verifharness/atenv"
	"verifharness/gen"
	"verifharness/memsql"
	"verifharness/pt"
	"verifharness/stats"
)

var (
	ctx = pt.New("C09")
	env *atenv.Env
)

// Case: one branch with one statement, then a foreign modification before the rollback arrives.
type Case struct {
	Tables  []gen.TableSpec `json:"tables"`
	Stmt    gen.Stmt        `json:"stmt"`
	Config  gen.Config      `json:"config"`
	Foreign string          `json:"foreign"` // none | change-written | change-unwritten | delete-row | reinsert-deleted | reinsert-identical | back-to-before | change-some
	Pick    int             `json:"pick"`    // which written row the foreign writer targets
	// ReadFault k>0: the validation read of the rollback (SELECT … FOR UPDATE on the business table) is
	// interrupted while its rows are streamed, after k-1 rows; the connection stays usable
	ReadFault int `json:"read_fault,omitempty"`
}

var errBusiness = errors.New("business decides to roll back")

type rowState struct {
	key           string
	before, after map[string]memsql.Value // nil = row absent
	current       map[string]memsql.Value
}

func render(m map[string]memsql.Value, cols []string) string {
	if m == nil {
		return "<absent>"
	}
	var parts []string
	for _, c := range cols {
		parts = append(parts, c+"="+memsql.RenderValue(m[c]))
	}
	return strings.Join(parts, " ")
}

func pkWhere(tb gen.TableSpec, row map[string]memsql.Value) (string, []interface{}) {
	var conds []string
	var args []interface{}
	for _, p := range tb.PK {
		conds = append(conds, p+" = ?")
		args = append(args, row[p])
	}
	return strings.Join(conds, " AND "), args
}

func undoSnapshot(xid string) []string {
	var out []string
	for _, r := range env.UndoRows(xid) {
		out = append(out, fmt.Sprintf("branch=%v status=%v ctx=%x info=%x", r["branch_id"], r["log_status"], r["context"], r["rollback_info"]))
	}
	sort.Strings(out)
	return out
}

type observation struct {
	written  int
	class    string // dirty | all-before | all-after | mixed | untouched
	status   string
	affected int64
}

var last observation

func runCase(c Case) *pt.Failure {
	return pt.Guard("C09/crash", func() *pt.Failure { return execute(c) })
}

func execute(c Case) *pt.Failure {
	last = observation{}
	env.ResetCase()
	env.CleanUndo()
	atenv.UndoConfig(c.Config.Serializer, c.Config.Compress, true, c.Config.OnlyUpdate)
	n := atenv.NextCase()
	var names []string
	for i, tb := range c.Tables {
		name := atenv.TableName(n, i)
		names = append(names, name)
		if _, err := env.Bare.Exec(tb.DDL(name)); err != nil {
			return pt.Failf("C09/harness/setup", "%v", err)
		}
		if q := tb.InsertRows(name); q != "" {
			if _, err := env.Bare.Exec(q); err != nil {
				return pt.Failf("C09/harness/setup", "%v: %s", err, q)
			}
		}
	}
	defer env.DropTables(names)
	tb := c.Tables[c.Stmt.Table]
	tname := names[c.Stmt.Table]
	env.Srv.ResetJournal()
	var res atenv.BranchResult
	xid, _ := atenv.Global("c09", func(cx context.Context) error {
		res = atenv.RunBranch(cx, env.AT, "auto", "db", false, []atenv.StmtText{{SQL: c.Stmt.Text(names), Args: c.Stmt.GoArgs()}})
		return errBusiness
	})
	brs := env.TC.Branches()
	if res.Failed() || len(brs) != 1 {
		return nil // nothing committed by the branch: not this property's subject
	}
	// engine-side ground truth of what the branch wrote
	var rows []*rowState
	for _, e := range env.Srv.Journal() {
		if (e.Kind == "E" || e.Kind == "PE") && !strings.Contains(strings.ToLower(e.Query), "undo_log") {
			for _, w := range e.Writes {
				// keyed by the key columns in column order (the engine's own key text follows the order of
				// the PRIMARY KEY clause, which may differ)
				img := w.After
				if img == nil {
					img = w.Before
				}
				var ks []string
				for _, p := range c.Tables[c.Stmt.Table].PK {
					ks = append(ks, memsql.RenderValue(lowerIfString(img[p])))
				}
				rows = append(rows, &rowState{key: strings.Join(ks, "|"), before: w.Before, after: w.After})
			}
		}
	}
	if len(rows) == 0 {
		return nil
	}
	last.written = len(rows)
	last.affected = res.Stmts[0].Affected
	// ---- the foreign writer (bare driver, committed) ----
	target := rows[c.Pick%len(rows)]
	exec := func(q string, args ...interface{}) error {
		_, err := env.Bare.Exec(q, args...)
		return err
	}
	anyOf := func(m ...map[string]memsql.Value) map[string]memsql.Value {
		for _, x := range m {
			if x != nil {
				return x
			}
		}
		return nil
	}
	written := map[string]bool{}
	for _, s := range c.Stmt.SetCols {
		written[s] = true
	}
	nonKey := func(wantWritten bool) *gen.ColSpec {
		for i := len(tb.PK); i < len(tb.Cols); i++ {
			col := tb.Cols[i]
			isW := written[col.Name] || c.Stmt.Kind == "insert" || c.Stmt.Kind == "delete"
			if len(tb.Unique) > 0 && tb.Unique[0] == col.Name {
				continue
			}
			if isW == wantWritten {
				return &tb.Cols[i]
			}
		}
		return nil
	}
	bump := func(col *gen.ColSpec, cur memsql.Value) interface{} {
		switch col.Base {
		case "INT", "BIGINT", "SMALLINT", "TINYINT":
			if v, ok := cur.(int64); ok && v < 100 {
				return v + 1
			}
			return int64(3)
		case "DECIMAL", "DOUBLE", "FLOAT":
			if v, ok := cur.(float64); ok {
				return v + 1
			}
			return 7.5
		case "DATETIME", "DATE":
			return time.Date(2011, 11, 11, 0, 0, 0, 0, time.UTC)
		case "VARBINARY", "BLOB":
			return []byte("foreign")
		}
		return "foreign"
	}
	// subtle: the smallest change a comparison could overlook (letter case, last byte, one unit)
	subtle := func(col *gen.ColSpec, cur memsql.Value) interface{} {
		flip := func(b []byte) ([]byte, bool) {
			out := append([]byte{}, b...)
			for i, ch := range out {
				switch {
				case ch >= 'a' && ch <= 'z':
					out[i] = ch - 32
					return out, true
				case ch >= 'A' && ch <= 'Z':
					out[i] = ch + 32
					return out, true
				}
			}
			return out, false
		}
		switch v := cur.(type) {
		case string:
			if _, err := strconv.ParseFloat(strings.TrimSpace(v), 64); err == nil && v != "" && len(v) < 10 {
				return "0" + v // another text for the same number ('123' → '0123')
			}
			if f, ok := flip([]byte(v)); ok {
				return string(f)
			}
			return v + " "
		case []byte:
			if f, ok := flip(v); ok {
				return f
			}
			return append(append([]byte{}, v...), 0)
		case float64:
			if col.Base == "DECIMAL" {
				return v + 0.01
			}
			return v + 0.5
		}
		return bump(col, cur)
	}
	where := func(r *rowState) (string, []interface{}) { return pkWhere(tb, anyOf(r.after, r.before)) }
	var ferr error
	switch c.Foreign {
	case "none":
	case "change-written", "change-unwritten", "change-written-subtly", "null-written":
		if target.after == nil {
			return nil // row no longer exists: nothing to change
		}
		col := nonKey(c.Foreign != "change-unwritten")
		if col == nil {
			return nil
		}
		w, a := where(target)
		nv := bump(col, target.after[col.Name])
		if c.Foreign == "change-written-subtly" {
			nv = subtle(col, target.after[col.Name])
		}
		if c.Foreign == "null-written" && col.Nullable && target.after[col.Name] != nil {
			nv = nil // the foreign writer clears the value and touches nothing else
		}
		ferr = exec("UPDATE "+tname+" SET "+gen.Q(col.Name)+" = ? WHERE "+w, append([]interface{}{nv}, a...)...)
	case "delete-row":
		if target.after == nil {
			return nil
		}
		w, a := where(target)
		ferr = exec("DELETE FROM "+tname+" WHERE "+w, a...)
	case "reinsert-deleted", "reinsert-identical":
		if target.after != nil || target.before == nil {
			return nil
		}
		var cols, ph []string
		var args []interface{}
		for i, col := range tb.Cols {
			cols = append(cols, gen.Q(col.Name))
			ph = append(ph, "?")
			v := target.before[col.Name]
			if c.Foreign == "reinsert-deleted" && i >= len(tb.PK) && i == len(tb.Cols)-1 {
				v = bump(&tb.Cols[i], v)
			}
			args = append(args, v)
		}
		ferr = exec("INSERT INTO "+tname+" ("+strings.Join(cols, ",")+") VALUES ("+strings.Join(ph, ",")+")", args...)
	case "back-to-before", "change-some":
		for i, r := range rows {
			if c.Foreign == "change-some" && i%2 == 1 {
				continue
			}
			switch {
			case r.before != nil && r.after != nil: // update: put the before values back
				var sets []string
				var args []interface{}
				for _, col := range tb.Cols[len(tb.PK):] {
					sets = append(sets, gen.Q(col.Name)+" = ?")
					args = append(args, r.before[col.Name])
				}
				w, a := where(r)
				ferr = exec("UPDATE "+tname+" SET "+strings.Join(sets, ", ")+" WHERE "+w, append(args, a...)...)
			case r.before == nil: // insert: remove the row again
				w, a := where(r)
				ferr = exec("DELETE FROM "+tname+" WHERE "+w, a...)
			default: // delete: put the row back
				var cols, ph []string
				var args []interface{}
				for _, col := range tb.Cols {
					cols = append(cols, gen.Q(col.Name))
					ph = append(ph, "?")
					args = append(args, r.before[col.Name])
				}
				ferr = exec("INSERT INTO "+tname+" ("+strings.Join(cols, ",")+") VALUES ("+strings.Join(ph, ",")+")", args...)
			}
			if ferr != nil {
				break
			}
		}
	}
	if ferr != nil {
		return nil // the foreign statement itself was not possible (e.g. unique index): not a case
	}
	// current rows
	cur := map[string]map[string]memsql.Value{}
	for _, r := range env.Srv.Rows(atenv.Schema, tname) {
		var ks []string
		for _, p := range tb.PK {
			ks = append(ks, memsql.RenderValue(lowerIfString(r[p])))
		}
		cur[strings.Join(ks, "|")] = r
	}
	// columns the images hold
	var imageCols []string
	if c.Config.OnlyUpdate && c.Stmt.Kind == "insert" && len(c.Stmt.InsCols) > 0 {
		// with only-care-update-columns the image of an INSERT holds the listed columns plus the key
		imageCols = append(imageCols, c.Stmt.InsCols...)
		for _, p := range tb.PK {
			listed := false
			for _, x := range c.Stmt.InsCols {
				listed = listed || x == p
			}
			if !listed {
				imageCols = append(imageCols, p)
			}
		}
	} else if c.Config.OnlyUpdate && c.Stmt.Kind == "update" {
		imageCols = append(imageCols, c.Stmt.SetCols...)
		for _, p := range tb.PK {
			if !written[p] {
				imageCols = append(imageCols, p)
			}
		}
	} else {
		for _, col := range tb.Cols {
			imageCols = append(imageCols, col.Name)
		}
	}
	dirty, allB, allA := false, true, true
	var desc []string
	for _, r := range rows {
		r.current = cur[r.key]
		cs, bs, as := render(r.current, imageCols), render(r.before, imageCols), render(r.after, imageCols)
		eqB, eqA := cs == bs, cs == as
		if !eqB && !eqA {
			dirty = true
		}
		allB = allB && eqB
		allA = allA && eqA
		desc = append(desc, fmt.Sprintf("row %s: before{%s} after{%s} current{%s}", r.key, bs, as, cs))
	}
	switch {
	case dirty:
		last.class = "dirty"
	case allA:
		last.class = "all-after"
	case allB:
		last.class = "all-before"
	default:
		last.class = "mixed"
	}
	before := env.Srv.Snapshot(atenv.Schema, names...)
	undoBefore := undoSnapshot(xid)
	mark := int64(0)
	if j := env.Srv.Journal(); len(j) > 0 {
		mark = j[len(j)-1].Seq
	}
	var rf *memsql.Fault
	if c.ReadFault > 0 {
		rf = &memsql.Fault{InRows: true, AfterRows: c.ReadFault - 1, Match: func(e *memsql.Entry) bool {
			u := e.Upper()
			return e.Seq > mark && (e.Kind == "Q" || e.Kind == "PQ") && strings.Contains(u, strings.ToUpper(tname)) && strings.Contains(u, "FOR UPDATE")
		}}
		env.Srv.AddFault(rf)
	}
	st, resp := env.TC.BranchRollback(env.Sess, brs[0], 5*time.Second)
	env.Srv.ClearFaults()
	interrupted := rf != nil && rf.Fired() > 0
	last.status = fmt.Sprint(st)
	if resp == nil {
		last.status = "no-response"
	}
	after := env.Srv.Snapshot(atenv.Schema, names...)
	undoAfter := undoSnapshot(xid)
	rollbacked := resp != nil && st == branch.BranchStatusPhasetwoRollbacked
	kind := c.Stmt.Kind
	ctxInfo := fmt.Sprintf("statement: %s %v\nforeign: %s\n%s\n%s", c.Stmt.Text(names), c.Stmt.GoArgs(), c.Foreign, strings.Join(desc, "\n"), atenv.Tail(env.Srv.JournalSince(mark), 12))
	if _, open, _ := env.Srv.Stats(); open != 0 {
		return pt.Failf("C09/transaction-left-open/"+kind, "engine transaction left open after the rollback attempt\n%s", ctxInfo)
	}
	if interrupted && last.class != "dirty" {
		// the current rows could not be read: either the attempt fails and changes nothing, or it
		// claims success, and then the rows are what a rollback leaves
		last.class += "+read-interrupted"
		if !rollbacked {
			if d := atenv.DiffSnap(before, after); d != "" {
				return pt.Failf("C09/failed-attempt-wrote/"+kind, "the validation read was interrupted and the rollback refused, but the tables changed:%s\n%s", d, ctxInfo)
			}
			return nil
		}
		for _, r := range rows {
			var now map[string]memsql.Value
			for _, x := range env.Srv.Rows(atenv.Schema, tname) {
				var ks []string
				for _, p := range tb.PK {
					ks = append(ks, memsql.RenderValue(lowerIfString(x[p])))
				}
				if strings.Join(ks, "|") == r.key {
					now = x
				}
			}
			if render(now, imageCols) != render(r.before, imageCols) {
				return pt.Failf("C09/rollbacked-without-reading/"+kind, "the validation read was interrupted, the branch answered Rollbacked, but row %s is {%s}, before image {%s}\n%s", r.key, render(now, imageCols), render(r.before, imageCols), ctxInfo)
			}
		}
		return nil
	}
	switch last.class {
	case "dirty":
		if rollbacked {
			return pt.Failf("C09/rollbacked-over-foreign-write/"+kind+"/"+c.Foreign, "a written row was changed by someone else (current ∉ {before, after}) but the branch answered Rollbacked\n%s", ctxInfo)
		}
		if d := atenv.DiffSnap(before, after); d != "" {
			return pt.Failf("C09/foreign-write-overwritten/"+kind+"/"+c.Foreign, "rollback refused, but the tables changed:%s\n%s", d, ctxInfo)
		}
		if strings.Join(undoBefore, ";") != strings.Join(undoAfter, ";") {
			return pt.Failf("C09/undo-log-touched/"+kind+"/"+c.Foreign, "rollback refused, but the undo log changed: %v -> %v\n%s", undoBefore, undoAfter, ctxInfo)
		}
	case "all-before":
		if !rollbacked {
			return pt.Failf("C09/refused-although-already-before/"+kind+"/"+c.Foreign, "every written row already equals its before image, but the branch answered %s\n%s", last.status, ctxInfo)
		}
		for _, e := range env.Srv.JournalSince(mark) {
			if len(e.Writes) > 0 && !strings.Contains(strings.ToLower(e.Query), "undo_log") {
				return pt.Failf("C09/wrote-although-already-before/"+kind+"/"+c.Foreign, "rows already equal the before image, but rollback wrote: %s\n%s", e.String(), ctxInfo)
			}
		}
	case "all-after":
		if !rollbacked {
			return pt.Failf("C09/refused-untouched/"+kind+"/"+c.Foreign, "nobody touched the written rows (current == after image on the imaged columns), but the branch answered %s\n%s", last.status, ctxInfo)
		}
		for _, r := range rows {
			var now map[string]memsql.Value
			for _, x := range env.Srv.Rows(atenv.Schema, tname) {
				var ks []string
				for _, p := range tb.PK {
					ks = append(ks, memsql.RenderValue(lowerIfString(x[p])))
				}
				if strings.Join(ks, "|") == r.key {
					now = x
				}
			}
			if render(now, imageCols) != render(r.before, imageCols) {
				return pt.Failf("C09/not-restored/"+kind+"/"+c.Foreign, "answered Rollbacked but row %s is {%s}, before image {%s}\n%s", r.key, render(now, imageCols), render(r.before, imageCols), ctxInfo)
			}
		}
	}
	return nil
}

func lowerIfString(v memsql.Value) memsql.Value {
	if s, ok := v.(string); ok {
		return strings.ToLower(s)
	}
	return v
}

func record(test string, c Case) {
	labels := []string{"stmt:" + c.Stmt.Kind, "foreign:" + c.Foreign, "class:" + last.class, fmt.Sprintf("only-update-cols:%v", c.Config.OnlyUpdate), "status:" + last.status}
	if last.written > 1 {
		labels = append(labels, "multi-row")
	}
	nt := last.written > 0 && c.Foreign != "none" && last.class != ""
	mode := "all"
	if c.Config.OnlyUpdate && c.Stmt.Kind == "update" {
		mode = "updated+pk"
	}
	if c.Config.OnlyUpdate && c.Stmt.Kind == "insert" && len(c.Stmt.InsCols) > 0 {
		mode = "listed+pk"
	}
	var types []string
	for _, col := range c.Tables[c.Stmt.Table].Cols {
		types = append(types, col.Base)
	}
	ctx.Rec.Case(test, nt, fmt.Sprintf("%s|%s|%s|%s|%d|%s|%s|%s", c.Stmt.Kind, c.Foreign, mode, last.class, min(last.written, 3), c.Tables[c.Stmt.Table].KeyShape, c.Stmt.Where, strings.Join(types, ",")), c, labels...)
}

func min(a, b int) int {
	if a < b {
		return a
	}
	return b
}

var foreignKinds = []string{"none", "change-written", "change-written", "change-written-subtly", "change-written-subtly", "null-written", "change-unwritten", "delete-row", "reinsert-deleted", "reinsert-identical", "back-to-before", "change-some"}

func stmtOptions() gen.StmtOptions {
	o := gen.StmtOptions{ForceParamStrings: true, NoKeyAssignment: true}
	active := func(id string) bool { return ctx.KnownActive(id) || strings.Contains(os.Getenv("C09_FORCE_EXCL"), id) }
	// the insert-key and upsert classes of C01's known findings never commit a tracked branch
	o.NoNullAutoKey = true
	o.NoUpsertOnUnique = true
	_ = active
	return o
}

func TestMain(m *testing.M) {
	env = atenv.Get(atenv.Options{})
	ctx.Rec.SetRule("generator: one AT branch = one autocommit statement (INSERT 1–3 rows / UPDATE / DELETE / upsert from the shared grammar, schemas as in C01) committed locally inside a global transaction, data validation on, both settings of only-care-update-columns; then a foreign committed modification through the bare driver chosen from {none, change a written column, change an unwritten column, delete the row, re-insert a deleted key with different / identical content, put every row back to its before image, do that for every second row}; then BranchRollback. Ground truth: the engine's write set of the business statement (before/after row per key) and the current rows, restricted to the columns the image holds (all, or assigned + key). Oracle: some row ∉ {before, after} ⇒ not Rollbacked, tables and undo log unchanged; all rows == before ⇒ Rollbacked without any DML on the business table; all rows == after ⇒ Rollbacked and rows == before; mixed before/after cases are counted and not judged. Non-trivial: a foreign modification hit the written rows. Distinct by (statement kind, modification kind, image column mode, class, rows).")
	ctx.Rec.Assume("memsql / faketc as in C01", "mixed 'some rows == after, others == before' is left unspecified by the statement and skipped")
	ctx.RunWitnesses(func(f stats.Finding) *pt.Failure {
		var c Case
		if err := json.Unmarshal(f.Witness, &c); err != nil {
			return nil
		}
		return runCase(c)
	})
	ctx.Main(m)
}

func TestPropForeignWrite(t *testing.T) {
	ctx.Check(t, func(rt *rapid.T) {
		nt := rapid.IntRange(1, 1).Draw(rt, "nTables")
		var tables []gen.TableSpec
		for i := 0; i < nt; i++ {
			tables = append(tables, gen.DrawTable(rt, i))
		}
		c := Case{Tables: tables, Stmt: gen.DrawStmt(rt, tables, stmtOptions()),
			Config:  gen.Config{Serializer: "json", Compress: rapid.SampledFrom([]string{"None", "None", "Gzip", "Zstd"}).Draw(rt, "compress"), Validation: true, OnlyUpdate: rapid.Bool().Draw(rt, "onlyUpdate")},
			Foreign: rapid.SampledFrom(foreignKinds).Draw(rt, "foreign"), Pick: rapid.IntRange(0, 5).Draw(rt, "pick")}
		if rapid.IntRange(0, 5).Draw(rt, "readFault") == 0 {
			c.ReadFault = rapid.SampledFrom([]int{1, 1, 2}).Draw(rt, "readFaultAt")
		}
		fl := runCase(c)
		record("foreign-write", c)
		ctx.Judge(rt, "foreign-write", fl, c)
	})
}

// ---- a foreign write inside the window between the dirty check and the compensation ----------

type windowCase struct {
	Kind     string `json:"kind"`   // window
	Stmt     string `json:"stmt"`   // update | delete
	Rows     []int  `json:"rows"`   // ids written by the branch
	Target   int    `json:"target"` // id the foreign writer changes
	OnlyCols bool   `json:"only_update_columns"`
}

// runWindow pauses the rollback at its first compensation statement and lets a foreign writer try to
// change a written row in that window. If the write gets through (it was not blocked by a row lock taken
// by the dirty check), the rollback must not overwrite it.
func runWindow(c windowCase) *pt.Failure {
	return pt.Guard("C09/crash", func() *pt.Failure {
		env.ResetCase()
		env.CleanUndo()
		atenv.UndoConfig("json", "None", true, c.OnlyCols)
		n := atenv.NextCase()
		tname := atenv.TableName(n, 0)
		for _, q := range []string{"CREATE TABLE " + tname + " (id INT PRIMARY KEY, v INT NOT NULL, s VARCHAR(20))", "INSERT INTO " + tname + " VALUES (1,10,'a'),(2,20,'b'),(3,30,'c'),(4,40,'d')"} {
			if _, err := env.Bare.Exec(q); err != nil {
				return pt.Failf("C09/harness/setup", "%v", err)
			}
		}
		defer env.DropTables([]string{tname})
		var ids []string
		for _, r := range c.Rows {
			ids = append(ids, fmt.Sprint(r))
		}
		q := "UPDATE " + tname + " SET v = v + 1 WHERE id IN (" + strings.Join(ids, ",") + ")"
		if c.Stmt == "delete" {
			q = "DELETE FROM " + tname + " WHERE id IN (" + strings.Join(ids, ",") + ")"
		}
		var res atenv.BranchResult
		_, _ = atenv.Global("c09w", func(cx context.Context) error {
			res = atenv.RunBranch(cx, env.AT, "auto", "db", false, []atenv.StmtText{{SQL: q}})
			return errBusiness
		})
		brs := env.TC.Branches()
		if res.Failed() || len(brs) != 1 {
			return pt.Failf("C09/harness/window-setup", "branch statement failed: %+v", res)
		}
		mark := env.Srv.Journal()
		markSeq := int64(0)
		if len(mark) > 0 {
			markSeq = mark[len(mark)-1].Seq
		}
		hit := make(chan memsql.Entry, 1)
		release := make(chan struct{})
		env.Srv.AddPause(&memsql.Pause{Once: true, Hit: hit, Release: release, Match: func(e *memsql.Entry) bool {
			u := e.Upper()
			return e.Seq > markSeq && (strings.HasPrefix(u, "UPDATE "+strings.ToUpper(tname)) || strings.HasPrefix(u, "INSERT INTO "+strings.ToUpper(tname)))
		}})
		defer env.Srv.ClearFaults()
		env.Srv.SetLockWait(120 * time.Millisecond)
		defer env.Srv.SetLockWait(2 * time.Second)
		done := make(chan string, 1)
		go func() {
			st, _ := env.TC.BranchRollback(env.Sess, brs[0], 8*time.Second)
			done <- fmt.Sprint(st)
		}()
		var ferr error
		reached := false
		select {
		case <-hit:
			reached = true
			if c.Stmt == "delete" {
				// the row is gone: the foreign writer re-creates the key with other content
				_, ferr = env.Bare.Exec("INSERT INTO "+tname+" VALUES (?, 999, 'foreign')", c.Target)
			} else {
				_, ferr = env.Bare.Exec("UPDATE "+tname+" SET v = 999 WHERE id = ?", c.Target)
			}
			close(release)
		case st := <-done:
			done <- st
		case <-time.After(6 * time.Second):
			close(release)
		}
		status := "timeout"
		select {
		case status = <-done:
		case <-time.After(10 * time.Second):
		}
		last = observation{written: len(c.Rows), status: status}
		if !reached {
			last.class = "window-not-reached"
			return nil
		}
		if ferr != nil {
			last.class = "window-blocked" // the dirty check holds the row lock: the foreign writer had to wait
			return nil
		}
		last.class = "window-write-committed"
		var v int64 = -1
		for _, r := range env.Srv.Rows(atenv.Schema, tname) {
			if r["id"] == int64(c.Target) {
				v, _ = r["v"].(int64)
			}
		}
		if v != 999 {
			return pt.Failf("C09/foreign-write-overwritten/"+c.Stmt+"/during-rollback", "a foreign writer committed v=999 on row %d between the dirty check and the compensation; the rollback (answer %s) left v=%d\n%s", c.Target, status, v, atenv.Tail(env.Srv.JournalSince(markSeq), 16))
		}
		return nil
	})
}

var windowRuns int

func TestPropForeignWriteInWindow(t *testing.T) {
	limit := 40 // each run waits for a lock timeout: bounded by count (C09_WINDOW), not by time
	if v := os.Getenv("C09_WINDOW"); v != "" {
		fmt.Sscanf(v, "%d", &limit)
	}
	ctx.Check(t, func(rt *rapid.T) {
		if windowRuns >= limit {
			return
		}
		windowRuns++
		c := windowCase{Kind: "window", Stmt: rapid.SampledFrom([]string{"update", "update", "delete"}).Draw(rt, "stmt"), OnlyCols: rapid.Bool().Draw(rt, "onlyCols")}
		nr := rapid.IntRange(1, 3).Draw(rt, "nRows")
		seen := map[int]bool{}
		for len(c.Rows) < nr {
			r := rapid.IntRange(1, 4).Draw(rt, "row")
			if !seen[r] {
				seen[r] = true
				c.Rows = append(c.Rows, r)
			}
		}
		sort.Ints(c.Rows)
		c.Target = rapid.SampledFrom(c.Rows).Draw(rt, "target")
		fl := runWindow(c)
		ctx.Rec.Case("window", last.class != "window-not-reached", fmt.Sprintf("window|%s|%v|%d|%v", c.Stmt, c.Rows, c.Target, c.OnlyCols), c, "foreign:during-rollback", "class:"+last.class)
		ctx.Judge(rt, "window", fl, c)
	})
}

func TestPropReplaySaved(t *testing.T) {
	ctx.ReplayAll(t, func(v *stats.Violation) *pt.Failure {
		return runRaw(v.Case)
	})
}

func runRaw(raw json.RawMessage) *pt.Failure {
	var w windowCase
	if err := json.Unmarshal(raw, &w); err == nil && w.Kind == "window" {
		return runWindow(w)
	}
	var c Case
	if err := json.Unmarshal(raw, &c); err != nil {
		return pt.Failf("C09/replay", "bad case: %v", err)
	}
	return runCase(c)
}

func TestReplay(t *testing.T) {
	var c Case
	v, ok := pt.Replay(t, &c)
	if !ok {
		t.Skip("no VERIF_REPLAY_FILE")
	}
	defer ctx.Rec.Flush()
	if strings.Contains(string(v.Case), `"kind":"window"`) || strings.Contains(string(v.Case), `"kind": "window"`) {
		fl := runRaw(v.Case)
		ctx.Rec.Case("replay", true, string(v.Case), v.Case)
		ctx.Judge(t, v.Test, fl, v.Case)
		return
	}
	fl := runCase(c)
	record("replay", c)
	ctx.Judge(t, v.Test, fl, c)
}
