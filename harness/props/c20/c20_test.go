// C20 — concurrent use of one client is free of data races and lock-ups (run under -race).
package c20

import (
	"context"
	"database/sql"
	"encoding/json"
	"errors"
	"fmt"
	"os"
	"runtime"
	"sort"
	"strings"
	"sync"
	"sync/atomic"
	"testing"
	"time"

	getty "github.com/apache/dubbo-getty"
	"github.com/prometheus/client_golang/prometheus"
	"pgregory.net/rapid"

	seatasql "seata.apache.org/seata-go/pkg/datasource/sql"
	"seata.apache.org/seata-go/pkg/datasource/sql/datasource"
	"seata.apache.org/seata-go/pkg/protocol/branch"
	"seata.apache.org/seata-go/pkg/remoting/loadbalance"
	"seata.apache.org/seata-go/pkg/rm"
	"seata.apache.org/seata-go/pkg/rm/tcc"
	"seata.apache.org/seata-go/pkg/tm"

	"verifharness/atenv"
	"verifharness/pt"
	"verifharness/stats"
)

var (
	ctx = pt.New("C20")
	env *atenv.Env
)

// Tx is one global transaction of a worker.
type Tx struct {
	Kind     string `json:"kind"` // at | xa | tcc
	Via      string `json:"via"`  // db | conn
	Rows     []int  `json:"rows"` // rows updated (ids 1..8; sorted, so that workers cannot deadlock each other)
	Insert   bool   `json:"insert"`
	Decision string `json:"decision"`            // commit | rollback
	FailStmt bool   `json:"fail_stmt,omitempty"` // the last statement fails (duplicate key): the branch ends in phase one, phase two finds nothing
}

type Case struct {
	Workers  [][]Tx `json:"workers"`
	NewConns bool   `json:"new_conns"` // the handles keep no idle connection: every statement opens one
	Tables   int    `json:"tables"`    // fresh tables per case (metadata loaded concurrently by the first users)
	// Server, Compress: server profile and undo-log compressor of the process that ran the case (fixed per
	// process; a replay adopts them). Repeat > 1: the workload is run that many times and judged by growth.
	Server   string `json:"server,omitempty"`
	Compress string `json:"compress,omitempty"`
	Repeat   int    `json:"repeat,omitempty"`
}

var procServer, procCompress string

type action struct {
	mu                           sync.Mutex
	prepares, commits, rollbacks int
}

func (a *action) Prepare(ctx context.Context, params interface{}) (bool, error) {
	a.mu.Lock()
	a.prepares++
	a.mu.Unlock()
	return true, nil
}
func (a *action) Commit(ctx context.Context, bac *tm.BusinessActionContext) (bool, error) {
	a.mu.Lock()
	a.commits++
	a.mu.Unlock()
	return true, nil
}
func (a *action) Rollback(ctx context.Context, bac *tm.BusinessActionContext) (bool, error) {
	a.mu.Lock()
	a.rollbacks++
	a.mu.Unlock()
	return true, nil
}
func (a *action) GetActionName() string { return "c20-tcc-action" }

var (
	tccOnce  sync.Once
	tccProxy *tcc.TCCServiceProxy
	tccAct   = &action{}
	insertID int64
	idMu     sync.Mutex
)

func nextID() int64 {
	idMu.Lock()
	defer idMu.Unlock()
	insertID++
	return 1000 + insertID
}

func stableGoroutines() int {
	prev := -1
	for i := 0; i < 200; i++ {
		time.Sleep(10 * time.Millisecond)
		n := runtime.NumGoroutine()
		if n == prev {
			return n
		}
		prev = n
	}
	return prev
}

var last struct{ txs, conns, goroutines int }

var cold = true // the first workload of the process

// runWorkload runs a case once, or Repeat times: what a transaction loses (a connection, a goroutine) shows
// as growth from run to run, however small against the slack of a single comparison.
func runWorkload(c Case) *pt.Failure {
	if c.Repeat <= 1 {
		return runCase(c)
	}
	var conns, gor []int
	for rep := 0; rep < c.Repeat; rep++ {
		if fl := runCase(c); fl != nil {
			return fl
		}
		conns, gor = append(conns, last.conns), append(gor, last.goroutines)
	}
	growing := func(v []int) bool {
		for i := 1; i < len(v); i++ {
			if v[i] <= v[i-1] {
				return false
			}
		}
		return true
	}
	if growing(conns) {
		return pt.Failf("C20/connection-leak", "server connections after %d runs of the same workload (idle connections closed each time): %v", c.Repeat, conns)
	}
	if growing(gor) {
		buf := make([]byte, 1<<20)
		buf = buf[:runtime.Stack(buf, true)]
		return pt.Failf("C20/goroutine-leak", "goroutines after %d runs of the same workload: %v\n%s", c.Repeat, gor, trimStacks(string(buf)))
	}
	return nil
}

func runCase(c Case) *pt.Failure {
	return pt.Guard("C20/crash", func() *pt.Failure {
		env.ResetCase()
		env.CleanUndo()
		n := atenv.NextCase()
		var names []string
		for i := 0; i < c.Tables; i++ {
			name := atenv.TableName(n, i)
			names = append(names, name)
			if _, err := env.Bare.Exec("CREATE TABLE " + name + " (id INT PRIMARY KEY, v INT NOT NULL)"); err != nil {
				return pt.Failf("C20/harness/setup", "%v", err)
			}
			if _, err := env.Bare.Exec("INSERT INTO " + name + " VALUES (1,0),(2,0),(3,0),(4,0),(5,0),(6,0),(7,0),(8,0)"); err != nil {
				return pt.Failf("C20/harness/setup", "%v", err)
			}
		}
		defer env.DropTables(names)
		idle := 2
		if c.NewConns {
			idle = 0
		}
		env.AT.SetMaxIdleConns(idle)
		env.XA.SetMaxIdleConns(idle)
		defer func() { env.AT.SetMaxIdleConns(2); env.XA.SetMaxIdleConns(2) }()
		g0 := stableGoroutines()
		conns0, _, _ := env.Srv.Stats()
		before := map[int]bool{}
		for _, id := range env.Srv.ConnIDs() {
			before[id] = true
		}

		type result struct {
			worker, idx int
			err         error
			dur         time.Duration
		}
		var mu sync.Mutex
		var results []result
		var wg sync.WaitGroup
		var phase2 sync.WaitGroup
		done := make(chan struct{})
		for w, txs := range c.Workers {
			wg.Add(1)
			go func(w int, txs []Tx) {
				defer wg.Done()
				for i, t := range txs {
					t0 := time.Now()
					err := runTx(t, names, &phase2)
					mu.Lock()
					results = append(results, result{w, i, err, time.Since(t0)})
					mu.Unlock()
				}
			}(w, txs)
		}
		go func() { wg.Wait(); phase2.Wait(); close(done) }()
		select {
		case <-done:
		case <-time.After(40 * time.Second):
			buf := make([]byte, 1<<20)
			buf = buf[:runtime.Stack(buf, true)]
			return pt.Failf("C20/lock-up", "the workload did not terminate within 40 s\n%s", trimStacks(string(buf)))
		}
		last.txs = len(results)
		wasCold := cold
		cold = false
		for _, r := range results {
			if r.err != nil && strings.HasPrefix(r.err.Error(), "PANIC") {
				return pt.Failf("C20/panic", "worker %d tx %d: %v", r.worker, r.idx, r.err)
			}
		}
		// nothing is lost per transaction
		env.AT.SetMaxIdleConns(0)
		env.XA.SetMaxIdleConns(0)
		internalPools(0)
		defer internalPools(2)
		time.Sleep(20 * time.Millisecond)
		if _, open, _ := env.Srv.Stats(); open != 0 {
			return pt.Failf("C20/transaction-left-open", "engine transactions left open on %v after the workload", env.Srv.OpenTxConns())
		}
		if left := env.Srv.XABranches(); len(left) != 0 {
			return pt.Failf("C20/xa-branch-left", "XA branches left in the database: %v", left)
		}
		conns1, _, _ := env.Srv.Stats()
		last.conns, last.goroutines = conns1, stableGoroutines()
		if wasCold {
			return nil // pools, singletons and background goroutines came into being during this workload
		}
		if conns1 > conns0+2 {
			var sb strings.Builder
			for _, id := range env.Srv.ConnIDs() {
				if before[id] {
					continue
				}
				fmt.Fprintf(&sb, "connection c%d, its statements:\n", id)
				k := 0
				for _, e := range env.Srv.Journal() {
					if e.Conn == id && k < 12 {
						sb.WriteString("    " + e.String() + "\n")
						k++
					}
				}
			}
			return pt.Failf("C20/connection-leak", "%d connections before the workload, %d after it (idle connections closed) — %d transactions\n%s", conns0, conns1, len(results), sb.String())
		}
		g1 := stableGoroutines()
		if g1 > g0+3 {
			buf := make([]byte, 1<<20)
			buf = buf[:runtime.Stack(buf, true)]
			return pt.Failf("C20/goroutine-leak", "%d goroutines before the workload, %d after it (%d transactions)\n%s", g0, g1, len(results), trimStacks(string(buf)))
		}
		return nil
	})
}

// internalPools sets the idle limit of the sql.DB each resource keeps for metadata and phase two.
func internalPools(n int) {
	for _, bt := range []branch.BranchType{branch.BranchTypeAT, branch.BranchTypeXA} {
		datasource.GetDataSourceManager(bt).GetCachedResources().Range(func(k, v any) bool {
			if r, ok := v.(*seatasql.DBResource); ok && r.GetDB() != nil {
				r.GetDB().SetMaxIdleConns(n)
			}
			return true
		})
	}
}

func trimStacks(s string) string {
	var keep []string
	for _, g := range strings.Split(s, "\n\n") {
		if strings.Contains(g, "seata-go/pkg") || strings.Contains(g, "props/c20") {
			lines := strings.Split(g, "\n")
			if len(lines) > 14 {
				lines = lines[:14]
			}
			keep = append(keep, strings.Join(lines, "\n"))
		}
	}
	sort.Strings(keep)
	if len(keep) > 12 {
		keep = keep[:12]
	}
	return strings.Join(keep, "\n\n")
}

func runTx(t Tx, names []string, phase2 *sync.WaitGroup) (err error) {
	defer func() {
		if p := recover(); p != nil {
			err = fmt.Errorf("PANIC: %v", p)
		}
	}()
	decide := errors.New("business decides to roll back")
	var xid string
	gerr := tm.WithGlobalTx(context.Background(), &tm.GtxConfig{Name: "c20", Timeout: 30 * time.Second}, func(cx context.Context) error {
		xid = tm.GetXID(cx)
		switch t.Kind {
		case "tcc":
			if _, e := tccProxy.Prepare(cx, struct{}{}); e != nil {
				return e
			}
		default:
			db := env.AT
			if t.Kind == "xa" {
				db = env.XA
			}
			var x interface {
				ExecContext(ctx context.Context, q string, args ...interface{}) (sql.Result, error)
			} = db
			if t.Via == "conn" {
				c, e := db.Conn(cx)
				if e != nil {
					return e
				}
				defer c.Close()
				x = c
			}
			for i, r := range t.Rows {
				if _, e := x.ExecContext(cx, "UPDATE "+names[i%len(names)]+" SET v = v + 1 WHERE id = ?", r); e != nil {
					return e
				}
			}
			if t.Insert {
				if _, e := x.ExecContext(cx, "INSERT INTO "+names[0]+" (id, v) VALUES (?, ?)", nextID(), 1); e != nil {
					return e
				}
			}
			if t.FailStmt {
				if _, e := x.ExecContext(cx, "INSERT INTO "+names[0]+" (id, v) VALUES (?, ?)", 1, 1); e != nil {
					return decide // the business gives up: global rollback
				}
			}
		}
		if t.Decision == "rollback" {
			return decide
		}
		return nil
	})
	// the coordinator delivers phase two for the branches of this global transaction while the other
	// workers are still busy
	phase2.Add(1)
	go func() {
		defer phase2.Done()
		for _, b := range env.TC.Branches() {
			if b.Xid != xid {
				continue
			}
			if gerr != nil {
				env.TC.BranchRollback(env.Sess, b, 10*time.Second)
			} else {
				env.TC.BranchCommit(env.Sess, b, 10*time.Second)
			}
			if b.Type == branch.BranchTypeAT {
				env.TC.ReleaseLocks(b.Xid)
			}
		}
	}()
	if gerr != nil && !errors.Is(gerr, decide) && !strings.Contains(gerr.Error(), "roll back") {
		return gerr
	}
	return nil
}

func TestMain(m *testing.M) {
	version := "8.0.30"
	if sh := os.Getenv("VERIF_SHARD"); sh != "" && (sh[len(sh)-1]-'0')%2 == 1 {
		version = "5.7.30" // XA connections are held for phase two on this profile
	}
	if v := pt.ReplayCaseString("server"); v != "" {
		version = v
	}
	if v := os.Getenv("C20_VERSION"); v != "" {
		version = v
	}
	env = atenv.Get(atenv.Options{XA: true, Version: version})
	env.Srv.SetLockWait(3 * time.Second)
	// once: the configuration is not meant to change at run time; the undo-log compressor follows the shard number
	compress := "None"
	if v := os.Getenv("VERIF_SHARD"); v != "" {
		compress = []string{"None", "Gzip", "Zstd", "Deflate", "Lz4", "Bzip2", "Zip"}[int(v[len(v)-1]-'0')%7]
	}
	if v := pt.ReplayCaseString("compress"); v != "" {
		compress = v
	}
	procServer, procCompress = version, compress
	ctx.ProcessFields = map[string]string{"server": version, "compress": compress}
	atenv.UndoConfig("json", compress, true, true)
	var err error
	tccOnce.Do(func() { tccProxy, err = tcc.NewTCCServiceProxy(tccAct) })
	if err != nil {
		panic(err)
	}
	ctx.Rec.SetRule("generator: 2–8 worker goroutines, each running 1–3 global transactions through one initialised client and the shared AT / XA handles: AT or XA transactions updating 1–3 of 8 rows (ascending ids, so the workload itself cannot deadlock) of 1–2 freshly created tables (table metadata is loaded concurrently by the first users), optionally inserting a row, via db or a pinned Conn, or a TCC action; business decision commit / rollback; the fake coordinator delivers phase two (BranchCommit / BranchRollback) for each finished global transaction from its own goroutine while the other workers are still running; optionally the handles keep no idle connections (every statement opens a new one). Built with -race. Oracle: the race detector reports nothing in seata-go frames; the workload terminates (40 s); no panic; afterwards no engine transaction is open, no XA branch is left, the number of server connections (idle ones closed) and of goroutines is back to its level before the workload (+2 / +3 slack). Non-trivial: ≥4 transactions on ≥2 workers. Distinct by the multiset of transaction shapes.")
	ctx.Rec.Assume("interleavings are whatever the Go scheduler produces under -race; they are not enumerated", "coordinator = faketc; its lock table is not consulted (LockMode off)")
	ctx.RunWitnesses(func(f stats.Finding) *pt.Failure {
		var c Case
		if err := json.Unmarshal(f.Witness, &c); err != nil {
			return nil
		}
		return runCase(c)
	})
	// no warm-up: the first workload of a process meets every lazily initialised singleton from several
	// goroutines at once (first-use races show only there); its leak probes are skipped instead
	ctx.Main(m)
}

// coldCase: every kind of transaction and both decisions on 8 workers, as the first thing a process does.
func coldCase() Case {
	c := Case{Tables: 2}
	kinds := []string{"at", "at", "xa", "tcc", "at", "xa", "at", "tcc"}
	for w := 0; w < 8; w++ {
		dec := []string{"rollback", "commit"}[w%2]
		c.Workers = append(c.Workers, []Tx{
			{Kind: kinds[w], Via: []string{"db", "conn"}[w%2], Rows: []int{1 + w%8}, Decision: dec},
			{Kind: kinds[(w+3)%8], Via: "db", Rows: []int{1 + (w+4)%8}, Decision: []string{"commit", "rollback"}[w%2], Insert: w%3 == 0},
		})
	}
	return c
}

func TestPropConcurrentWorkload(t *testing.T) {
	if cold {
		c := coldCase()
		fl := runCase(c)
		ctx.Rec.Case("cold-start", true, "cold-start", c, "cold-start")
		ctx.Judge(t, "cold-start", fl, c)
		// a fixed second workload, with the leak probes on: branches that end in phase one (a failing last
		// statement) of every kind, so that phase two finds nothing to finish
		w := Case{Tables: 1}
		for i, k := range []string{"xa", "xa", "at", "xa", "tcc", "at"} {
			w.Workers = append(w.Workers, []Tx{{Kind: k, Via: []string{"db", "conn"}[i%2], Rows: []int{1 + i}, Decision: []string{"rollback", "commit"}[i%2], FailStmt: i != 4},
				{Kind: k, Via: "db", Rows: []int{8 - i}, Decision: "commit"}})
		}
		w.Repeat, w.Server, w.Compress = 3, procServer, procCompress
		fl = runWorkload(w)
		ctx.Rec.Case("workload", true, "fixed-failing-branches", w, "fixed-failing-branches")
		ctx.Judge(t, "workload", fl, w)
	}
	ctx.Check(t, func(rt *rapid.T) {
		c := Case{NewConns: rapid.IntRange(0, 3).Draw(rt, "newConns") == 0, Tables: rapid.IntRange(1, 2).Draw(rt, "tables")}
		nw := rapid.IntRange(2, 8).Draw(rt, "workers")
		var shape []string
		for w := 0; w < nw; w++ {
			var txs []Tx
			nt := rapid.IntRange(1, 3).Draw(rt, "txs")
			for i := 0; i < nt; i++ {
				t := Tx{Kind: rapid.SampledFrom([]string{"at", "at", "xa", "tcc"}).Draw(rt, "kind"), Via: rapid.SampledFrom([]string{"db", "conn"}).Draw(rt, "via"),
					Decision: rapid.SampledFrom([]string{"commit", "commit", "rollback"}).Draw(rt, "decision"), Insert: rapid.IntRange(0, 3).Draw(rt, "insert") == 0, FailStmt: rapid.IntRange(0, 4).Draw(rt, "failStmt") == 0}
				rows := map[int]bool{}
				for k := rapid.IntRange(1, 3).Draw(rt, "nRows"); k > 0; k-- {
					rows[rapid.IntRange(1, 8).Draw(rt, "row")] = true
				}
				for r := range rows {
					t.Rows = append(t.Rows, r)
				}
				sort.Ints(t.Rows)
				txs = append(txs, t)
				shape = append(shape, fmt.Sprintf("%s/%s/%s/%d/%v", t.Kind, t.Via, t.Decision, len(t.Rows), t.FailStmt))
			}
			c.Workers = append(c.Workers, txs)
		}
		sort.Strings(shape)
		c.Server, c.Compress = procServer, procCompress
		fl := runCase(c)
		ctx.Rec.Case("workload", last.txs >= 4 && nw >= 2, strings.Join(shape, ","), c, fmt.Sprintf("workers:%d", nw), fmt.Sprintf("newConns:%v", c.NewConns))
		ctx.Judge(rt, "workload", fl, c)
	})
}

// ---- concurrent use of the session registry and the load balancers ---------------------------

type lbSession struct {
	getty.Session
	addr   string
	closed int32
}

func (s *lbSession) IsClosed() bool     { return atomic.LoadInt32(&s.closed) == 1 }
func (s *lbSession) RemoteAddr() string { return s.addr }
func (s *lbSession) Close()             { atomic.StoreInt32(&s.closed, 1) }
func (s *lbSession) Stat() string       { return "lb[" + s.addr + "]" }

type lbCase struct {
	Kind      string `json:"kind"` // selection
	Selectors int    `json:"selectors"`
	Each      int    `json:"each"`
	Policy    string `json:"policy"`
	Churn     int    `json:"churn"` // open/close/remove steps of the churn goroutine
}

// runSelection: several goroutines select sessions (as every request does) while sessions are opened,
// closed and removed (as reconnection does). Judged by the race detector, panics and termination.
func runSelection(c lbCase) *pt.Failure {
	return pt.Guard("C20/crash", func() *pt.Failure {
		loadbalance.ResetConsistentHashForVerif()
		m := &sync.Map{}
		addrs := []string{"10.0.0.1:8091", "10.0.0.2:8091", "10.0.0.3:8091", "10.0.0.4:8091"}
		var all []*lbSession
		for _, a := range addrs {
			s := &lbSession{addr: a}
			all = append(all, s)
			m.Store(getty.Session(s), true)
		}
		var wg sync.WaitGroup
		var panicked atomic.Value
		guard := func(f func()) {
			defer wg.Done()
			defer func() {
				if p := recover(); p != nil {
					panicked.Store(fmt.Sprint(p))
				}
			}()
			f()
		}
		wg.Add(1)
		go guard(func() {
			for i := 0; i < c.Churn; i++ {
				s := all[i%len(all)]
				switch i % 3 {
				case 0:
					s.Close()
				case 1:
					m.Delete(getty.Session(s))
				default:
					n := &lbSession{addr: s.addr}
					all[i%len(all)] = n
					m.Store(getty.Session(n), true)
				}
				runtime.Gosched()
			}
		})
		for g := 0; g < c.Selectors; g++ {
			wg.Add(1)
			g := g
			go guard(func() {
				for i := 0; i < c.Each; i++ {
					_ = loadbalance.Select(c.Policy, m, fmt.Sprintf("10.0.0.%d:8091:%d", 1+(g+i)%4, 1000+g*100+i))
				}
			})
		}
		done := make(chan struct{})
		go func() { wg.Wait(); close(done) }()
		select {
		case <-done:
		case <-time.After(20 * time.Second):
			return pt.Failf("C20/selection/lock-up/"+c.Policy, "concurrent selection did not terminate")
		}
		if p := panicked.Load(); p != nil {
			return pt.Failf("C20/selection/panic/"+c.Policy, "%v", p)
		}
		return nil
	})
}

func TestPropConcurrentSelection(t *testing.T) {
	ctx.Check(t, func(rt *rapid.T) {
		c := lbCase{Kind: "selection", Selectors: rapid.IntRange(2, 6).Draw(rt, "selectors"), Each: rapid.IntRange(20, 200).Draw(rt, "each"),
			Policy: rapid.SampledFrom([]string{"ConsistentHashLoadBalance", "ConsistentHashLoadBalance", "RoundRobinLoadBalance", "LeastActiveLoadBalance", "XID", "RandomLoadBalance"}).Draw(rt, "policy"),
			Churn:  rapid.IntRange(5, 200).Draw(rt, "churn")}
		fl := runSelection(c)
		ctx.Rec.Case("selection", true, fmt.Sprintf("selection|%s|%d|%d|%d", c.Policy, c.Selectors, c.Each/50, c.Churn/50), c, "policy:"+c.Policy)
		ctx.Judge(rt, "selection", fl, c)
	})
}

// ---- a burst of phase-two commits against the AT commit worker -----------------------------------

type burstCase struct {
	Kind       string `json:"kind"` // burst
	Senders    int    `json:"senders"`
	Each       int    `json:"each"`
	Limit      int    `json:"buffer_limit"`
	IntervalMs int    `json:"interval_ms"`
	Chan       int    `json:"receive_chan"`
	Workers    int    `json:"workers"`
	WorkerBuf  int    `json:"worker_buffer"`
}

// runBurst: several goroutines deliver AT branch commits (as the coordinator's phase-two traffic does)
// to one commit worker whose flushes overlap with the arrivals. Judged by the race detector, by
// termination, and by the undo log being empty afterwards (every accepted commit was carried out).
func runBurst(c burstCase) *pt.Failure {
	return pt.Guard("C20/crash", func() *pt.Failure {
		env.ResetCase()
		env.CleanUndo()
		xid := func(g int) string { return fmt.Sprintf("10.0.0.1:8091:%d", 7000+g) }
		for g := 0; g < c.Senders; g++ {
			for k := 0; k < c.Each; k++ {
				if _, err := env.Bare.Exec("INSERT INTO undo_log (branch_id, xid, context, rollback_info, log_status, log_created, log_modified) VALUES (?, ?, 'serializer=json', x'7b7d', 0, now(6), now(6))", int64(g*1000+k+1), xid(g)); err != nil {
					return pt.Failf("C20/harness/setup", "%v", err)
				}
			}
		}
		mgr := datasource.GetDataSourceManager(branch.BranchTypeAT)
		aw := seatasql.NewAsyncWorker(prometheus.NewRegistry(), seatasql.AsyncWorkerConfig{BufferLimit: c.Limit, BufferCleanInterval: time.Duration(c.IntervalMs) * time.Millisecond,
			ReceiveChanSize: c.Chan, CommitWorkerCount: c.Workers, CommitWorkerBufferSize: c.WorkerBuf}, mgr)
		var wg sync.WaitGroup
		var refused int64
		for g := 0; g < c.Senders; g++ {
			wg.Add(1)
			go func(g int) {
				defer wg.Done()
				for k := 0; k < c.Each; k++ {
					st, err := aw.BranchCommit(context.Background(), rm.BranchResource{ResourceId: env.ResourceID, Xid: xid(g), BranchId: int64(g*1000 + k + 1), BranchType: branch.BranchTypeAT})
					if err != nil || st != branch.BranchStatusPhasetwoCommitted {
						atomic.AddInt64(&refused, 1)
					}
				}
			}(g)
		}
		done := make(chan struct{})
		go func() { wg.Wait(); close(done) }()
		select {
		case <-done:
		case <-time.After(20 * time.Second):
			return pt.Failf("C20/burst/senders-blocked", "branch commits did not return within 20s (%+v)", c)
		}
		if refused > 0 {
			return pt.Failf("C20/burst/not-answered-committed", "%d branch commits were not answered committed", refused)
		}
		deadline := time.Now().Add(8 * time.Second)
		for {
			left := env.Srv.Rows(atenv.Schema, "undo_log")
			if len(left) == 0 {
				return nil
			}
			if time.Now().After(deadline) {
				return pt.Failf("C20/burst/commit-lost", "%d of %d undo-log rows were never deleted although every commit was accepted (%+v)", len(left), c.Senders*c.Each, c)
			}
			time.Sleep(5 * time.Millisecond)
		}
	})
}

func TestPropPhaseTwoBurst(t *testing.T) {
	ctx.Check(t, func(rt *rapid.T) {
		c := burstCase{Kind: "burst", Senders: rapid.IntRange(2, 6).Draw(rt, "senders"), Each: rapid.IntRange(5, 40).Draw(rt, "each"),
			Limit: rapid.IntRange(3, 30).Draw(rt, "limit"), IntervalMs: rapid.IntRange(1, 10).Draw(rt, "interval"), Chan: rapid.IntRange(1, 16).Draw(rt, "chan"),
			Workers: rapid.IntRange(1, 4).Draw(rt, "workers"), WorkerBuf: rapid.IntRange(1, 8).Draw(rt, "workerBuf")}
		fl := runBurst(c)
		ctx.Rec.Case("burst", true, fmt.Sprintf("burst|%d|%d|%d|%d|%d", c.Senders, c.Each/10, c.Limit/10, c.IntervalMs/4, c.Workers), c, "kind:burst")
		ctx.Judge(rt, "burst", fl, c)
	})
}

// ---- a locking read against a row lock that is not released while it tries -------------------------

type stuckCase struct {
	Kind    string `json:"kind"` // stuck-reader
	Readers int    `json:"readers"`
	Mode    string `json:"mode"` // auto | tx
	Via     string `json:"via"`
}

// runStuckReader: a local transaction of another client holds a row lock for as long as the readers try.
// Each SELECT … FOR UPDATE inside a global transaction must give up (bounded retries) and return; only then
// is the lock released. Judged by termination, by leaks and by the race detector.
func runStuckReader(c stuckCase) *pt.Failure {
	return pt.Guard("C20/crash", func() *pt.Failure {
		env.ResetCase()
		n := atenv.NextCase()
		tn := atenv.TableName(n, 0)
		for _, q := range []string{"CREATE TABLE " + tn + " (id INT PRIMARY KEY, v INT NOT NULL)", "INSERT INTO " + tn + " VALUES (1, 10), (2, 20)"} {
			if _, err := env.Bare.Exec(q); err != nil {
				return pt.Failf("C20/harness/setup", "%v", err)
			}
		}
		defer env.DropTables([]string{tn})
		env.Srv.SetLockWait(50 * time.Millisecond)
		defer env.Srv.SetLockWait(3 * time.Second)
		holder, err := env.Bare.Begin()
		if err != nil {
			return pt.Failf("C20/harness/setup", "%v", err)
		}
		if _, err := holder.Exec("UPDATE " + tn + " SET v = v + 1 WHERE id = 1"); err != nil {
			_ = holder.Rollback()
			return pt.Failf("C20/harness/setup", "%v", err)
		}
		var wg sync.WaitGroup
		errs := make([]string, c.Readers)
		for i := 0; i < c.Readers; i++ {
			wg.Add(1)
			go func(i int) {
				defer wg.Done()
				_, _ = atenv.Global("c20-stuck", func(cx context.Context) error {
					res := atenv.RunBranch(cx, env.AT, c.Mode, c.Via, false, []atenv.StmtText{{SQL: "SELECT v FROM " + tn + " WHERE id = 1 FOR UPDATE", Query: true}})
					errs[i] = res.FirstErr()
					if res.Failed() {
						return errors.New(res.FirstErr())
					}
					return nil
				})
			}(i)
		}
		done := make(chan struct{})
		go func() { wg.Wait(); close(done) }()
		select {
		case <-done:
		case <-time.After(25 * time.Second):
			_ = holder.Rollback()
			<-done
			return pt.Failf("C20/locking-read-never-gives-up/"+c.Mode, "%d locking reads against a row locked by another client were still trying after 25s (they returned only when the lock was released)", c.Readers)
		}
		_ = holder.Rollback()
		for i, e := range errs {
			if e == "" {
				return pt.Failf("C20/locking-read-ignored-row-lock", "reader %d returned rows although another client held the row lock", i)
			}
		}
		if _, open, _ := env.Srv.Stats(); open != 0 {
			return pt.Failf("C20/transaction-left-open", "engine transaction left open on %v after the readers gave up", env.Srv.OpenTxConns())
		}
		return nil
	})
}

func TestPropLockingReadGivesUp(t *testing.T) {
	ctx.Check(t, func(rt *rapid.T) {
		// a case costs about a second (three lock waits): one draw in six runs it
		if rapid.IntRange(0, 5).Draw(rt, "run") != 0 {
			return
		}
		c := stuckCase{Kind: "stuck-reader", Readers: rapid.IntRange(1, 3).Draw(rt, "readers"), Mode: rapid.SampledFrom([]string{"auto", "tx"}).Draw(rt, "mode"), Via: rapid.SampledFrom([]string{"db", "conn"}).Draw(rt, "via")}
		fl := runStuckReader(c)
		ctx.Rec.Case("stuck-reader", true, fmt.Sprintf("stuck-reader|%d|%s|%s", c.Readers, c.Mode, c.Via), c, "kind:stuck-reader")
		ctx.Judge(rt, "stuck-reader", fl, c)
	})
}

func TestPropReplaySaved(t *testing.T) {
	ctx.ReplayAll(t, func(v *stats.Violation) *pt.Failure {
		var l lbCase
		if err := json.Unmarshal(v.Case, &l); err == nil && l.Kind == "selection" {
			return runSelection(l)
		}
		var b burstCase
		if err := json.Unmarshal(v.Case, &b); err == nil && b.Kind == "burst" {
			return runBurst(b)
		}
		var sc stuckCase
		if err := json.Unmarshal(v.Case, &sc); err == nil && sc.Kind == "stuck-reader" {
			return runStuckReader(sc)
		}
		var c Case
		if err := json.Unmarshal(v.Case, &c); err != nil {
			return pt.Failf("C20/replay", "bad case: %v", err)
		}
		return runWorkload(c)
	})
}

func TestReplay(t *testing.T) {
	var c Case
	v, ok := pt.Replay(t, &c)
	if !ok {
		t.Skip("no VERIF_REPLAY_FILE")
	}
	defer ctx.Rec.Flush()
	var l lbCase
	var b burstCase
	if err := json.Unmarshal(v.Case, &l); err == nil && l.Kind == "selection" {
		fl := runSelection(l)
		ctx.Rec.Case("replay", true, string(v.Case), l)
		ctx.Judge(t, v.Test, fl, l)
		return
	}
	if err := json.Unmarshal(v.Case, &b); err == nil && b.Kind == "burst" {
		fl := runBurst(b)
		ctx.Rec.Case("replay", true, string(v.Case), b)
		ctx.Judge(t, v.Test, fl, b)
		return
	}
	var sc stuckCase
	if err := json.Unmarshal(v.Case, &sc); err == nil && sc.Kind == "stuck-reader" {
		fl := runStuckReader(sc)
		ctx.Rec.Case("replay", true, string(v.Case), sc)
		ctx.Judge(t, v.Test, fl, sc)
		return
	}
	fl := runWorkload(c)
	ctx.Rec.Case("replay", true, string(v.Case), c)
	ctx.Judge(t, v.Test, fl, c)
}
