// C07 — propagation modes and transaction context are honoured across nesting and RPC.
package c07

import (
	"context"
	"encoding/json"
	"errors"
	"fmt"
	"net/http"
	"net/http/httptest"
	"strings"
	"testing"
	"time"

	"dubbo.apache.org/dubbo-go/v3/protocol"
	"dubbo.apache.org/dubbo-go/v3/protocol/invocation"
	"github.com/gin-gonic/gin"
	"google.golang.org/grpc"
	"google.golang.org/grpc/metadata"
	"pgregory.net/rapid"

	"seata.apache.org/seata-go/pkg/constant"
	sdubbo "seata.apache.org/seata-go/pkg/integration/dubbo"
	sgin "seata.apache.org/seata-go/pkg/integration/gin"
	sgrpc "seata.apache.org/seata-go/pkg/integration/grpc"
	"seata.apache.org/seata-go/pkg/protocol/message"
	"seata.apache.org/seata-go/pkg/tm"

	"verifharness/boot"
	"verifharness/faketc"
	"verifharness/pt"
	"verifharness/stats"
)

var (
	ctx  = pt.New("C07")
	tc   *faketc.TC
	sess *faketc.Session
)

var propNames = []string{"Required", "RequiresNew", "NotSupported", "Supports", "Never", "Mandatory"}

// Node is one global-transaction scope.
type Node struct {
	Prop      int     `json:"prop"`      // tm.Propagation: 0 Required 1 RequiresNew 2 NotSupported 3 Supports 4 Never 5 Mandatory
	Fail      bool    `json:"fail"`      // own callback outcome
	Propagate bool    `json:"propagate"` // a child's error is returned by this callback
	Mode      string  `json:"mode"`      // how the context reaches this scope from its parent: shared | fresh | grpc | gin | dubbo
	Spelling  int     `json:"spelling"`  // header / attachment spelling variant used by the (simulated) remote caller
	Children  []*Node `json:"children,omitempty"`
	// Slow: the scope is configured with a transaction timeout of one millisecond and its callback takes a few:
	// the timeout is the coordinator's business, the client still sends its decision
	Slow bool `json:"slow,omitempty"`
}

type Case struct {
	RootXid string `json:"root_xid,omitempty"` // non-empty: this process is the callee of a remote initiator
	Root    *Node  `json:"root"`
}

func (n *Node) String() string {
	s := fmt.Sprintf("%s/%s", propNames[n.Prop], n.Mode)
	if n.Fail {
		s += "!"
	}
	if n.Propagate {
		s += "^"
	}
	if len(n.Children) > 0 {
		var cs []string
		for _, c := range n.Children {
			cs = append(cs, c.String())
		}
		s += "(" + strings.Join(cs, ",") + ")"
	}
	return s
}

func depth(n *Node) int {
	d := 0
	for _, c := range n.Children {
		if x := depth(c); x > d {
			d = x
		}
	}
	return d + 1
}

// ---- reference interpreter -------------------------------------------------------------------

type mScope struct {
	Path      string
	SeenXid   string // symbolic: "" | "T<k>" | "EXT"
	Ran       bool
	ReturnErr bool
}

type mResult struct {
	Scopes []mScope
	// Txs[k] = decision of the k-th begun transaction: "commit" | "rollback"; Names[k] its name
	Txs   []string
	Names []string
}

func interpret(c Case) mResult {
	var r mResult
	var run func(n *Node, enclosing, path string) bool
	run = func(n *Node, enclosing, path string) (failed bool) {
		sc := mScope{Path: path}
		idx := len(r.Scopes)
		r.Scopes = append(r.Scopes, sc)
		seen, launcher := "", -1
		entryErr := false
		switch n.Prop {
		case 0: // Required
			if enclosing != "" {
				seen = enclosing
			} else {
				launcher = len(r.Txs)
			}
		case 1: // RequiresNew
			launcher = len(r.Txs)
		case 2: // NotSupported
		case 3: // Supports
			seen = enclosing
		case 4: // Never
			entryErr = enclosing != ""
		case 5: // Mandatory
			if enclosing == "" {
				entryErr = true
			} else {
				seen = enclosing
			}
		}
		if entryErr {
			r.Scopes[idx].ReturnErr = true
			return true
		}
		if launcher >= 0 {
			r.Txs = append(r.Txs, "")
			r.Names = append(r.Names, path)
			seen = fmt.Sprintf("T%d", launcher)
		}
		r.Scopes[idx].Ran = true
		r.Scopes[idx].SeenXid = seen
		cbErr := false
		for i, ch := range n.Children {
			if run(ch, seen, fmt.Sprintf("%s.%d", path, i)) && n.Propagate {
				cbErr = true
				break
			}
		}
		if !cbErr && n.Fail {
			cbErr = true
		}
		if launcher >= 0 {
			if cbErr {
				r.Txs[launcher] = "rollback"
			} else {
				r.Txs[launcher] = "commit"
			}
		}
		r.Scopes[idx].ReturnErr = cbErr
		return cbErr
	}
	enc := ""
	if c.RootXid != "" {
		enc = "EXT"
	}
	run(c.Root, enc, "r")
	return r
}

// ---- execution against the real client -------------------------------------------------------

type oScope struct {
	Path      string
	SeenXid   string
	Ran       bool
	ReturnErr bool
	Err       string
}

type execution struct {
	scopes  []oScope
	intact  []string // violations of "enclosing context intact after the inner scope"
	carried []string // violations of "xid arrives unchanged through the integration"
}

var errScope = errors.New("scope failed")

type stubInvoker struct {
	protocol.Invoker
	f func(ctx context.Context, inv protocol.Invocation) protocol.Result
}

func (s *stubInvoker) Invoke(ctx context.Context, inv protocol.Invocation) protocol.Result {
	return s.f(ctx, inv)
}

// transport carries the call from a parent callback context to the child scope according to mode
// and invokes call with the context the child receives. sentXid is the xid the parent holds.
func (ex *execution) transport(parent context.Context, n *Node, path string, call func(ctx context.Context) error) error {
	sentXid := tm.GetXID(parent)
	mode := n.Mode
	if mode == "gin" && sentXid == "" {
		mode = "fresh" // the gin middleware rejects requests without an xid header by design
	}
	check := func(got context.Context) {
		if g := tm.GetXID(got); g != sentXid {
			ex.carried = append(ex.carried, fmt.Sprintf("%s via %s: sent xid %q, callee context has %q", path, mode, sentXid, g))
		}
	}
	switch mode {
	case "shared":
		return call(parent)
	case "fresh":
		c := context.Background()
		if sentXid != "" {
			c = tm.InitSeataContext(c)
			tm.SetXID(c, sentXid)
		}
		return call(c)
	case "grpc":
		var result error
		if n.Spelling%4 == 2 && sentXid != "" {
			// a relay: the caller's outgoing metadata already carries the xid of some earlier hop
			parent = metadata.AppendToOutgoingContext(parent, constant.XidKey, "10.9.8.7:8091:424242")
		}
		err := sgrpc.ClientTransactionInterceptor(parent, "/svc/m", nil, nil, nil,
			func(octx context.Context, method string, req, reply interface{}, cc *grpc.ClientConn, opts ...grpc.CallOption) error {
				md, _ := metadata.FromOutgoingContext(octx)
				if n.Spelling%2 == 1 && sentXid != "" { // the peer may also be a client that writes the other spelling
					md = metadata.MD{}
					md.Set(constant.XidKey, sentXid)
				}
				ictx := metadata.NewIncomingContext(context.Background(), md)
				_, e := sgrpc.ServerTransactionInterceptor(ictx, nil, &grpc.UnaryServerInfo{}, func(hctx context.Context, req interface{}) (interface{}, error) {
					check(hctx)
					result = call(hctx)
					return nil, result
				})
				return e
			})
		if err != nil && result == nil {
			return err
		}
		return result
	case "gin":
		var result error
		ran := false
		gin.SetMode(gin.ReleaseMode)
		eng := gin.New()
		eng.Use(sgin.TransactionMiddleware())
		eng.GET("/m", func(gc *gin.Context) {
			ran = true
			check(gc.Request.Context())
			result = call(gc.Request.Context())
			gc.Status(http.StatusOK)
		})
		req := httptest.NewRequest("GET", "/m", nil)
		key := []string{constant.XidKey, constant.XidKeyLowercase, "Tx_Xid"}[n.Spelling%3]
		req.Header.Set(key, sentXid)
		rec := httptest.NewRecorder()
		eng.ServeHTTP(rec, req)
		if !ran {
			ex.carried = append(ex.carried, fmt.Sprintf("%s via gin: handler not reached (status %d) for xid %q header %q", path, rec.Code, sentXid, key))
			return errScope
		}
		return result
	case "dubbo":
		var result error
		f := sdubbo.GetDubboTransactionFilter()
		inv := invocation.NewRPCInvocation("m", nil, map[string]interface{}{})
		f.Invoke(parent, &stubInvoker{f: func(_ context.Context, out protocol.Invocation) protocol.Result {
			// network: only attachments travel; the provider side starts from a fresh context
			att := map[string]interface{}{}
			if sentXid != "" {
				keys := []string{constant.SeataXidKey, strings.ToLower(constant.SeataXidKey), constant.XidKey, strings.ToLower(constant.XidKey)}
				k := keys[n.Spelling%4]
				v, ok := out.GetAttachment(constant.SeataXidKey)
				if !ok {
					v, _ = out.GetAttachment(constant.XidKey)
				}
				if v != sentXid {
					ex.carried = append(ex.carried, fmt.Sprintf("%s via dubbo: consumer filter attached %q for xid %q", path, v, sentXid))
				}
				att[k] = sentXid
			}
			in := invocation.NewRPCInvocation("m", nil, att)
			return f.Invoke(context.Background(), &stubInvoker{f: func(pctx context.Context, _ protocol.Invocation) protocol.Result {
				check(pctx)
				result = call(pctx)
				return &protocol.RPCResult{Err: result}
			}}, in)
		}}, inv)
		return result
	}
	panic("unknown mode " + mode)
}

func (ex *execution) run(cctx context.Context, n *Node, path string) error {
	idx := len(ex.scopes)
	ex.scopes = append(ex.scopes, oScope{Path: path})
	gc := &tm.GtxConfig{Name: path, Propagation: tm.Propagation(n.Prop)}
	if n.Slow {
		gc.Timeout = time.Millisecond
	}
	err := tm.WithGlobalTx(cctx, gc, func(c context.Context) error {
		if n.Slow {
			defer time.Sleep(4 * time.Millisecond)
		}
		ex.scopes[idx].Ran = true
		ex.scopes[idx].SeenXid = tm.GetXID(c)
		for i, ch := range n.Children {
			cpath := fmt.Sprintf("%s.%d", path, i)
			var bx, bn string
			var br tm.GlobalTransactionRole
			shared := ch.Mode == "shared"
			if shared {
				bx, bn = tm.GetXID(c), tm.GetTxName(c)
				if r := tm.GetTxRole(c); r != nil {
					br = *r
				}
			}
			cerr := ex.transport(c, ch, cpath, func(cc context.Context) error { return ex.run(cc, ch, cpath) })
			if shared {
				ax, an := tm.GetXID(c), tm.GetTxName(c)
				var ar tm.GlobalTransactionRole
				if r := tm.GetTxRole(c); r != nil {
					ar = *r
				}
				if ax != bx || an != bn || ar != br {
					ex.intact = append(ex.intact, fmt.Sprintf("after inner scope %s (%s) the enclosing context changed: xid %q→%q role %v→%v name %q→%q", cpath, propNames[ch.Prop], bx, ax, br, ar, bn, an))
				}
			}
			if cerr != nil && n.Propagate {
				return cerr
			}
		}
		if n.Fail {
			return errScope
		}
		return nil
	})
	if err != nil {
		ex.scopes[idx].ReturnErr = true
		ex.scopes[idx].Err = err.Error()
	}
	return err
}

const extXid = "10.9.8.7:8091:424242"

func execute(c Case) (ex *execution, events []faketc.Event) {
	tc.Reset()
	tm.InitTm(tm.TmConfig{CommitRetryCount: 1, RollbackRetryCount: 1, DefaultGlobalTransactionTimeout: 60 * time.Second})
	ex = &execution{}
	root := context.Background()
	if c.RootXid != "" {
		root = tm.InitSeataContext(root)
		tm.SetXID(root, c.RootXid)
	}
	_ = ex.run(root, c.Root, "r")
	return ex, tc.Events()
}

func modesOf(n *Node, m map[string]bool) {
	m[n.Mode] = true
	for _, c := range n.Children {
		modesOf(c, m)
	}
}

func sigModes(c Case) string {
	m := map[string]bool{}
	for _, ch := range c.Root.Children {
		modesOf(ch, m)
	}
	if m["shared"] {
		return "shared-context"
	}
	return "fresh-context"
}

func judge(c Case, ex *execution, events []faketc.Event) *pt.Failure {
	want := interpret(c)
	// observed transactions in begin order
	var xids []string
	type txo struct {
		name               string
		commits, rollbacks int
	}
	obs := map[string]*txo{}
	for _, e := range events {
		if e.Dir != "c2s" && e.Dir != "s2c" {
			continue
		}
		switch b := e.Body.(type) {
		case message.GlobalBeginResponse:
			if e.Dir == "s2c" && b.ResultCode == message.ResultCodeSuccess {
				xids = append(xids, b.Xid)
				if obs[b.Xid] == nil {
					obs[b.Xid] = &txo{}
				}
			}
		case message.GlobalBeginRequest:
			// name is matched by order below
		case message.GlobalCommitRequest:
			if obs[b.Xid] == nil {
				obs[b.Xid] = &txo{}
			}
			obs[b.Xid].commits++
		case message.GlobalRollbackRequest:
			if obs[b.Xid] == nil {
				obs[b.Xid] = &txo{}
			}
			obs[b.Xid].rollbacks++
		}
	}
	var names []string
	for _, e := range events {
		if b, ok := e.Body.(message.GlobalBeginRequest); ok && e.Dir == "c2s" {
			names = append(names, b.TransactionName)
		}
	}
	mode := sigModes(c)
	sym := func(s string) string { // symbolic -> concrete xid
		if s == "EXT" {
			return c.RootXid
		}
		if strings.HasPrefix(s, "T") {
			var k int
			fmt.Sscanf(s, "T%d", &k)
			if k < len(xids) {
				return xids[k]
			}
			return "<not begun " + s + ">"
		}
		return s
	}
	if len(ex.carried) > 0 {
		return pt.Failf("C07/integration-xid", "%s", strings.Join(ex.carried, "; "))
	}
	if len(xids) != len(want.Txs) {
		return pt.Failf("C07/"+mode+"/begin-count", "tree %s: transactions begun %d (%v), documented semantics %d (%v)", c.Root, len(xids), names, len(want.Txs), want.Names)
	}
	for k := range want.Names {
		if k < len(names) && names[k] != want.Names[k] {
			return pt.Failf("C07/"+mode+"/begin-order", "tree %s: %d-th transaction begun by scope %q, expected %q", c.Root, k, names[k], want.Names[k])
		}
	}
	for i, ws := range want.Scopes {
		if i >= len(ex.scopes) {
			return pt.Failf("C07/"+mode+"/scope-missing", "tree %s: scope %s never entered", c.Root, ws.Path)
		}
		os := ex.scopes[i]
		if os.Path != ws.Path {
			return pt.Failf("C07/"+mode+"/scope-order", "tree %s: scope %d is %s, expected %s", c.Root, i, os.Path, ws.Path)
		}
		if os.Ran != ws.Ran {
			return pt.Failf("C07/"+mode+"/entry", "tree %s: scope %s callback ran=%v, documented semantics ran=%v (err %q)", c.Root, ws.Path, os.Ran, ws.Ran, os.Err)
		}
		if ws.Ran && os.SeenXid != sym(ws.SeenXid) {
			return pt.Failf("C07/"+mode+"/xid-seen", "tree %s: scope %s (%s) saw xid %q, expected %q", c.Root, ws.Path, propNames[nodeAt(c.Root, ws.Path).Prop], os.SeenXid, sym(ws.SeenXid))
		}
	}
	if len(ex.scopes) != len(want.Scopes) {
		return pt.Failf("C07/"+mode+"/scope-extra", "tree %s: %d scopes entered, expected %d", c.Root, len(ex.scopes), len(want.Scopes))
	}
	if len(ex.intact) > 0 {
		return pt.Failf("C07/"+mode+"/enclosing-context-changed", "tree %s: %s", c.Root, strings.Join(ex.intact, "; "))
	}
	for k, dec := range want.Txs {
		o := obs[xids[k]]
		wc, wr := 0, 0
		if dec == "commit" {
			wc = 1
		} else {
			wr = 1
		}
		if o.commits != wc || o.rollbacks != wr {
			return pt.Failf("C07/"+mode+"/second-phase", "tree %s: transaction %s (begun by %s) got commits=%d rollbacks=%d, expected %s exactly once", c.Root, xids[k], want.Names[k], o.commits, o.rollbacks, dec)
		}
	}
	for x, o := range obs {
		known := false
		for _, y := range xids {
			known = known || x == y
		}
		if !known {
			return pt.Failf("C07/"+mode+"/foreign-second-phase", "tree %s: second phase sent for xid %q which this process did not begin (commits=%d rollbacks=%d)", c.Root, x, o.commits, o.rollbacks)
		}
	}
	for i, ws := range want.Scopes {
		if ex.scopes[i].ReturnErr != ws.ReturnErr {
			return pt.Failf("C07/"+mode+"/return", "tree %s: scope %s returned error=%v (%q), expected error=%v", c.Root, ws.Path, ex.scopes[i].ReturnErr, ex.scopes[i].Err, ws.ReturnErr)
		}
	}
	return nil
}

func nodeAt(root *Node, path string) *Node {
	n := root
	parts := strings.Split(path, ".")
	for _, p := range parts[1:] {
		var k int
		fmt.Sscanf(p, "%d", &k)
		n = n.Children[k]
	}
	return n
}

func runCase(c Case) *pt.Failure {
	return pt.Guard("C07/crash", func() *pt.Failure {
		ex, ev := execute(c)
		return judge(c, ex, ev)
	})
}

// ---- generators ------------------------------------------------------------------------------

var modes = []string{"shared", "shared", "fresh", "grpc", "gin", "dubbo"}

func drawNode(t *rapid.T, d int, root bool) *Node {
	n := &Node{
		Prop:      rapid.IntRange(0, 5).Draw(t, "prop"),
		Fail:      rapid.IntRange(0, 3).Draw(t, "fail") == 0,
		Propagate: rapid.Bool().Draw(t, "propagate"),
		Mode:      "root",
		Spelling:  rapid.IntRange(0, 11).Draw(t, "spelling"),
		Slow:      rapid.IntRange(0, 15).Draw(t, "slow") == 7,
	}
	if !root {
		n.Mode = rapid.SampledFrom(modes).Draw(t, "mode")
	}
	if d > 1 {
		k := rapid.IntRange(0, 2).Draw(t, "children")
		for i := 0; i < k; i++ {
			n.Children = append(n.Children, drawNode(t, d-1, false))
		}
	}
	return n
}

func nonRequired(n *Node) bool {
	if n.Prop != 0 {
		return true
	}
	for _, c := range n.Children {
		if nonRequired(c) {
			return true
		}
	}
	return false
}

func record(test string, c Case) {
	d := depth(c.Root)
	m := map[string]bool{}
	modesOf(c.Root, m)
	labels := []string{fmt.Sprintf("depth:%d", d), "root-prop:" + propNames[c.Root.Prop]}
	for k := range m {
		if k != "root" {
			labels = append(labels, "mode:"+k)
		}
	}
	if c.RootXid != "" {
		labels = append(labels, "root-is-remote-callee")
	}
	ctx.Rec.Case(test, d >= 2 && nonRequired(c.Root), c.RootXid+"|"+c.Root.String(), c, labels...)
}

func TestMain(m *testing.M) {
	boot.Init("")
	tc = faketc.New("")
	sess = tc.Open()
	if !tc.WaitRegistered(sess, 5*time.Second) {
		panic("client did not register as TM on the fake session")
	}
	ctx.Rec.SetRule("generator: scope trees of depth ≤3, fan-out ≤2; node = (propagation ∈ 6 modes, own outcome, whether a child's error is propagated, how the context reaches the scope: shared with the parent / fresh context carrying the xid built by hand / through the real gRPC interceptor pair / the gin middleware via httptest / the dubbo filter pair, header or attachment spelling); the root optionally starts as the callee of a remote initiator (context carrying a foreign xid). Exhaustive part: all 6×6 two-level trees × outcomes × {shared, fresh}. Oracle: reference interpreter of the documented propagation semantics (xid seen per scope, entry failures, begin/commit/rollback per xid in begin order), enclosing xid/role/name intact after a shared-context inner scope, xid carried unchanged by the integrations. Non-trivial: depth ≥2 with a non-Required mode. Distinct by the tree.")
	ctx.Rec.Assume("coordinator as modelled by faketc (always acknowledges)", "gin middleware rejects requests without an xid by design: such hops fall back to a hand-built fresh context")
	ctx.RunWitnesses(func(f stats.Finding) *pt.Failure {
		var c Case
		if err := json.Unmarshal(f.Witness, &c); err != nil {
			return nil
		}
		return runCase(c)
	})
	ctx.Main(m)
}

func TestPropTrees(t *testing.T) {
	ctx.Check(t, func(rt *rapid.T) {
		c := Case{Root: drawNode(rt, 3, true)}
		if rapid.IntRange(0, 4).Draw(rt, "remoteRoot") == 0 {
			c.RootXid = extXid
		}
		record("trees", c)
		ctx.Judge(rt, "trees", runCase(c), c)
	})
}

// TestExhaustiveTwoLevel enumerates every two-level tree: 6 outer × 6 inner modes × outer/inner outcome × propagate × {shared, fresh}.
func TestExhaustiveTwoLevel(t *testing.T) {
	defer ctx.Rec.Flush()
	n := 0
	for op := 0; op < 6; op++ {
		for ip := 0; ip < 6; ip++ {
			for bits := 0; bits < 8; bits++ {
				for _, mode := range []string{"shared", "fresh"} {
					c := Case{Root: &Node{Prop: op, Fail: bits&1 != 0, Propagate: bits&2 != 0, Mode: "root",
						Children: []*Node{{Prop: ip, Fail: bits&4 != 0, Mode: mode}}}}
					record("two-level", c)
					n++
					ctx.Judge(t, "two-level", runCase(c), c)
				}
			}
		}
	}
	ctx.Rec.Exhaustive(map[string]interface{}{"two_level_trees": n})
}

// TestPropIntegrationXid: arbitrary xid strings through each integration and spelling arrive unchanged,
// and the callee joins as a participant that never ends the transaction.
func TestPropIntegrationXid(t *testing.T) {
	ctx.Check(t, func(rt *rapid.T) {
		xid := rapid.OneOf(
			rapid.Just("192.168.1.10:8091:2612593670166597"),
			rapid.StringMatching(`[0-9]{1,3}\.[0-9]{1,3}\.[0-9]{1,3}\.[0-9]{1,3}:[0-9]{2,5}:[0-9]{1,19}`),
			rapid.StringMatching(`[!-~]{1,40}`),
		).Draw(rt, "xid")
		mode := rapid.SampledFrom([]string{"grpc", "gin", "dubbo", "fresh"}).Draw(rt, "mode")
		if (mode == "dubbo" || mode == "fresh") && rapid.IntRange(0, 4).Draw(rt, "blank") == 0 {
			// blanks inside and around the xid: attachments and hand-built contexts carry any string as it is
			// (HTTP-based transports strip surrounding blanks themselves, so gin and grpc are left out)
			xid = rapid.SampledFrom([]string{" " + xid, xid + " ", xid + "\t", "a b" + xid, " " + xid + "\n"}).Draw(rt, "padded")
		}
		c := Case{RootXid: xid, Root: &Node{Prop: 3, Mode: "root", Children: []*Node{{
			Prop: rapid.SampledFrom([]int{0, 3, 5}).Draw(rt, "calleeProp"), Mode: mode, Spelling: rapid.IntRange(0, 11).Draw(rt, "spelling"),
			Fail: rapid.Bool().Draw(rt, "calleeFails")}}}}
		ctx.Rec.Case("integration-xid", true, fmt.Sprintf("%s|%s|%d|%d", xid, mode, c.Root.Children[0].Spelling%12, c.Root.Children[0].Prop), c, "integration:"+mode)
		ctx.Judge(rt, "integration-xid", runCase(c), c)
	})
}

func TestPropReplaySaved(t *testing.T) {
	ctx.ReplayAll(t, func(v *stats.Violation) *pt.Failure {
		var c Case
		if err := json.Unmarshal(v.Case, &c); err != nil {
			return pt.Failf("C07/replay", "bad case: %v", err)
		}
		return runCase(c)
	})
}

func TestReplay(t *testing.T) {
	var c Case
	v, ok := pt.Replay(t, &c)
	if !ok {
		t.Skip("no VERIF_REPLAY_FILE")
	}
	defer ctx.Rec.Flush()
	record("replay", c)
	ctx.Judge(t, v.Test, runCase(c), c)
}
