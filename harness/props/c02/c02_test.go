// C02 — AT phase one is atomic and ordered against the coordinator (fault enumeration).
package c02

import (
	"context"
	"encoding/json"
	"fmt"
	"strings"
	"testing"
	"time"

	"pgregory.net/rapid"

	"seata.apache.org/seata-go/pkg/protocol/branch"
	"seata.apache.org/seata-go/pkg/protocol/message"

	"verifharness/atenv"
	"verifharness/faketc"
	"verifharness/gen"
	"verifharness/memsql"
	"verifharness/pt"
	"verifharness/stats"
)

var (
	ctx = pt.New("C02")
	env *atenv.Env
)

type Case struct {
	Tables []gen.TableSpec `json:"tables"`
	Branch gen.Branch      `json:"branch"`
	Config gen.Config      `json:"config"`
	// Plan "" = enumerate every plan (property run); otherwise one plan (replay / witness)
	Plan string `json:"plan,omitempty"`
}

func texts(names []string, br gen.Branch) []atenv.StmtText {
	var out []atenv.StmtText
	for _, s := range br.Stmts {
		out = append(out, atenv.StmtText{SQL: s.Text(names), Args: s.GoArgs()})
	}
	return out
}

type run struct {
	names   []string
	d0      map[string][]string
	xid     string
	res     atenv.BranchResult
	journal []memsql.Entry
	tc      []faketc.Event
	final   map[string][]string
	undo    []map[string]memsql.Value
	fired   bool
	openTx  []int
}

func isPhaseOneStmt(e *memsql.Entry) bool {
	if e.Kind == "CONNECT" || e.Kind == "CLOSE" {
		return false
	}
	return !strings.Contains(e.Upper(), "INFORMATION_SCHEMA")
}

// execute runs the branch once under a plan: "none", "db:<k>", "drop:<k>", "register-fail",
// "register-transport", "report-fail:<r>", "register-noreply".
func execute(c Case, plan string) (*run, *pt.Failure) {
	env.ResetCase()
	env.CleanUndo()
	atenv.UndoConfig(c.Config.Serializer, c.Config.Compress, c.Config.Validation, c.Config.OnlyUpdate)
	n := atenv.NextCase()
	r := &run{}
	for i, tb := range c.Tables {
		name := atenv.TableName(n, i)
		r.names = append(r.names, name)
		if _, err := env.Bare.Exec(tb.DDL(name)); err != nil {
			return nil, pt.Failf("C02/harness/setup", "%v", err)
		}
		if q := tb.InsertRows(name); q != "" {
			if _, err := env.Bare.Exec(q); err != nil {
				return nil, pt.Failf("C02/harness/setup", "%v: %s", err, q)
			}
		}
	}
	defer env.DropTables(r.names)
	r.d0 = env.Srv.Snapshot(atenv.Schema, r.names...)
	env.Srv.ResetJournal()
	var f *memsql.Fault
	var k, rep int
	switch {
	case strings.HasPrefix(plan, "db:") || strings.HasPrefix(plan, "drop:"):
		fmt.Sscanf(plan[strings.Index(plan, ":")+1:], "%d", &k)
		count := 0
		f = &memsql.Fault{DropConn: strings.HasPrefix(plan, "drop:"), Match: func(e *memsql.Entry) bool {
			if !isPhaseOneStmt(e) {
				return false
			}
			count++
			return count == k
		}}
		env.Srv.AddFault(f)
	case plan == "flush-fail+report-down":
		f = &memsql.Fault{Match: func(e *memsql.Entry) bool { return strings.HasPrefix(e.Upper(), "INSERT INTO UNDO_LOG") }}
		env.Srv.AddFault(f)
		env.TC.Sticky(message.MessageTypeBranchStatusReport, &faketc.Action{Kind: faketc.TransportError})
	case plan == "register-fail":
		env.TC.Script(message.MessageTypeBranchRegister, faketc.Action{Kind: faketc.Fail, Msg: "LockKeyConflict"})
	case plan == "register-transport":
		env.TC.Script(message.MessageTypeBranchRegister, faketc.Action{Kind: faketc.TransportError})
	case plan == "register-noreply":
		env.TC.Script(message.MessageTypeBranchRegister, faketc.Action{Kind: faketc.NoReply})
	case strings.HasPrefix(plan, "report-fail:"):
		fmt.Sscanf(plan[len("report-fail:"):], "%d", &rep)
		for i := 0; i < rep; i++ {
			env.TC.Script(message.MessageTypeBranchStatusReport, faketc.Action{Kind: faketc.TransportError})
		}
	}
	r.xid, _ = atenv.Global("c02", func(cx context.Context) error {
		r.res = atenv.RunBranchOpt(cx, env.AT, atenv.BranchOpts{Mode: c.Branch.Mode, Via: c.Branch.Via, Prepared: c.Branch.Prepared, KeepGoing: c.Branch.KeepGoing}, texts(r.names, c.Branch))
		return nil // the global decision is not this property's subject
	})
	env.Srv.ClearFaults()
	if f != nil {
		r.fired = f.Fired() > 0
	} else {
		r.fired = true
	}
	time.Sleep(time.Millisecond)
	r.journal = env.Srv.Journal()
	r.tc = env.TC.Events()
	r.final = env.Srv.Snapshot(atenv.Schema, r.names...)
	r.undo = env.UndoRows(r.xid)
	_, open, _ := env.Srv.Stats()
	if open > 0 {
		r.openTx = env.Srv.OpenTxConns()
	}
	return r, nil
}

func judge(c Case, plan string, r *run, base *run) *pt.Failure {
	info := func() string {
		var sb strings.Builder
		fmt.Fprintf(&sb, "plan=%s mode=%s/%s caller saw: %+v\n", plan, c.Branch.Mode, c.Branch.Via, r.res)
		for _, e := range r.journal {
			if isPhaseOneStmt(&e) {
				sb.WriteString("    " + e.String() + "\n")
			}
		}
		for _, e := range r.tc {
			switch e.Body.(type) {
			case message.BranchRegisterRequest, message.BranchRegisterResponse, message.BranchReportRequest:
				sb.WriteString("    TC " + e.String() + "\n")
			}
		}
		return sb.String()
	}
	kind := plan
	if i := strings.Index(plan, ":"); i >= 0 {
		kind = plan[:i]
	}
	sig := func(what string) string { return "C02/" + what + "/" + kind + "/" + c.Branch.Mode }
	// (e) no engine transaction stays open on a pooled connection
	if len(r.openTx) > 0 {
		return pt.Failf(sig("transaction-left-open"), "after the call (and the caller's Rollback) engine transactions are still open on connections %v\n%s", r.openTx, info())
	}
	changed := atenv.DiffSnap(r.d0, r.final) != ""
	// (a delete and a re-insert of the same content, or an update and its reverse, are committed writes although
	// the tables end up as they were)
	committedTx := map[int]bool{}
	for _, e := range r.journal {
		if e.Kind == "COMMIT" && e.Err == "" && e.Tx != 0 {
			committedTx[e.Tx] = true
		}
	}
	for _, e := range r.journal {
		if e.Err == "" && len(e.Writes) > 0 && committedTx[e.Tx] && !strings.Contains(strings.ToLower(e.Query), "undo_log") {
			changed = true
		}
	}
	normalUndo := 0
	for _, u := range r.undo {
		if st, _ := u["log_status"].(int64); st == 0 {
			normalUndo++
		}
	}
	// (a) atomicity
	if changed && normalUndo == 0 {
		return pt.Failf(sig("writes-without-undo-log"), "business rows were committed but no undo_log row exists for %s:%s\n%s", r.xid, atenv.DiffSnap(r.d0, r.final), info())
	}
	wroteSomething := false // (a delete and a re-insert of the same content are writes although the tables end up as they were)
	undoTxs := map[int]bool{}
	for _, e := range r.journal {
		if e.Err == "" && e.Tx != 0 && strings.Contains(strings.ToLower(e.Query), "insert into undo_log") {
			undoTxs[e.Tx] = true
		}
	}
	for _, e := range r.journal {
		if e.Err == "" && len(e.Writes) > 0 && undoTxs[e.Tx] && !strings.Contains(strings.ToLower(e.Query), "undo_log") {
			wroteSomething = true // in the very local transaction that wrote the undo log
		}
	}
	if !changed && !wroteSomething && normalUndo != 0 && base != nil && atenv.DiffSnap(base.d0, base.final) != "" {
		// (an UPDATE that matches rows without changing them legitimately records an undo log: only a run
		// whose fault-free twin changes rows is judged here)
		return pt.Failf(sig("undo-log-without-writes"), "an undo_log row was committed but the business rows were not\n%s", info())
	}
	// (b) order on the journal
	var regReply, undoIns, commit, firstWrite int64 = -1, -1, -1, -1
	var undoConn, undoTx, commitConn, commitTx, writeConn, writeTx int
	for _, e := range r.tc {
		// only a granted registration counts: a refusal is not a licence to commit
		if b, ok := e.Body.(message.BranchRegisterResponse); ok && e.Dir == "s2c" && b.ResultCode == message.ResultCodeSuccess {
			regReply = e.Seq
		}
	}
	for _, e := range r.journal {
		up := e.Upper()
		switch {
		case strings.HasPrefix(up, "INSERT INTO UNDO_LOG") && e.Err == "":
			undoIns, undoConn, undoTx = e.Seq, e.Conn, e.Tx
		case e.Kind == "COMMIT" && e.Err == "" && undoIns > 0 && e.Conn == undoConn:
			commit, commitConn, commitTx = e.Seq, e.Conn, e.Tx
		case len(e.Writes) > 0 && !strings.Contains(up, "UNDO_LOG") && firstWrite < 0:
			firstWrite, writeConn, writeTx = e.Seq, e.Conn, e.Tx
		}
	}
	if changed {
		if regReply < 0 || undoIns < 0 || commit < 0 || !(regReply < undoIns && undoIns < commit) {
			return pt.Failf(sig("order"), "committed writes, but order BranchRegister reply (%d) < undo insert (%d) < COMMIT (%d) does not hold\n%s", regReply, undoIns, commit, info())
		}
		if undoConn != writeConn || undoTx != writeTx || commitConn != writeConn || commitTx != writeTx {
			return pt.Failf(sig("not-same-transaction"), "business writes (conn %d tx %d), undo insert (conn %d tx %d) and COMMIT (conn %d tx %d) are not one local transaction\n%s", writeConn, writeTx, undoConn, undoTx, commitConn, commitTx, info())
		}
	}
	// (c) surfacing
	baseChanged := base != nil && atenv.DiffSnap(base.d0, base.final) != ""
	if !r.res.Failed() && baseChanged && !changed {
		return pt.Failf(sig("silent-loss"), "the fault-free run commits changes, this run committed nothing, but the caller saw no error\n%s", info())
	}
	failed := r.res.Failed()
	if c.Branch.KeepGoing {
		// the caller ignores statement errors (MySQL rolls back only the failing statement) and commits:
		// what counts for it is the outcome of BeginTx and Commit
		failed = r.res.BeginErr != "" || r.res.CommitErr != ""
	}
	if failed && changed && kind != "report-fail" {
		// an error after a durable commit is tolerated only for report failures (reported separately below)
		return pt.Failf(sig("error-but-committed"), "the caller saw an error (%s) but the changes are committed\n%s", r.res.FirstErr(), info())
	}
	// (d) a registered branch that was not committed is reported phase-one-failed
	var registered int64
	reportedFailed, reportedDone := false, false
	for _, e := range r.tc {
		switch b := e.Body.(type) {
		case message.BranchRegisterResponse:
			if e.Dir == "s2c" && b.ResultCode == message.ResultCodeSuccess {
				registered = b.BranchId
			}
		case message.BranchReportRequest:
			// (an attempt the transport refused counts: the client tried, the coordinator was unreachable)
			if (e.Dir == "c2s" || e.Dir == "err") && b.Status == branch.BranchStatusPhaseoneFailed {
				reportedFailed = true
			}
			if e.Dir == "c2s" && b.Status == branch.BranchStatusPhaseoneDone {
				reportedDone = true
			}
		}
	}
	// (a caller that ignores failed statements and commits what is left — possibly nothing — has completed its
	// phase one: the branch is reported done, not failed)
	if registered != 0 && !changed && baseChanged && !reportedFailed && (!c.Branch.KeepGoing || failed) {
		return pt.Failf(sig("failed-branch-not-reported"), "branch %d was registered, nothing was committed, but no BranchReport(PhaseOne_Failed) was sent\n%s", registered, info())
	}
	if reportedDone && !changed && baseChanged && len(committedTx) == 0 {
		// (a local transaction that committed without having written anything — every statement of a caller who
		// carries on failed or matched nothing — is a completed phase one all the same)
		return pt.Failf(sig("reported-done-without-commit"), "PhaseOne_Done reported although nothing was committed\n%s", info())
	}
	return nil
}

type tally struct {
	plans, reached int
	kinds          map[string]int
}

var last tally

func plansFor(base *run, thorough bool) []string {
	n := 0
	for _, e := range base.journal {
		if isPhaseOneStmt(&e) {
			n++
		}
	}
	var plans []string
	for k := 1; k <= n; k++ {
		plans = append(plans, fmt.Sprintf("db:%d", k), fmt.Sprintf("drop:%d", k))
	}
	plans = append(plans, "register-fail", "register-transport", "report-fail:1")
	// one double fault that a single outage produces: the undo_log insert fails and the coordinator
	// cannot be reached for the failure report either (every 4th scenario: the report retries take ~1 s)
	if base.xid != "" && base.xid[len(base.xid)-1]%4 == 0 || thorough {
		plans = append(plans, "flush-fail+report-down")
	}
	if thorough {
		plans = append(plans, "report-fail:2", "report-fail:5")
	}
	return plans
}

func runCase(c Case) *pt.Failure {
	return pt.Guard("C02/crash", func() *pt.Failure {
		last = tally{kinds: map[string]int{}}
		base, fl := execute(c, "none")
		if fl != nil {
			return fl
		}
		if fl := judge(c, "none", base, nil); fl != nil {
			return fl
		}
		if c.Plan != "" {
			r, fl := execute(c, c.Plan)
			if fl != nil {
				return fl
			}
			last.plans, last.reached = 1, 1
			return judge(c, c.Plan, r, base)
		}
		if base.res.Failed() {
			return nil // the statement fails even without faults: nothing to enumerate
		}
		for _, p := range plansFor(base, stats.Thorough()) {
			r, fl := execute(c, p)
			if fl != nil {
				return fl
			}
			last.plans++
			if !r.fired {
				continue
			}
			last.reached++
			last.kinds[p[:strings.IndexAny(p+":", ":")]]++
			if fl := judge(c, p, r, base); fl != nil {
				failingPlan = p
				return fl
			}
		}
		return nil
	})
}

var failingPlan string

func stmtOptions() gen.StmtOptions {
	return gen.StmtOptions{ForceParamStrings: true, NoKeyAssignment: true, NoNullAutoKey: true, NoUpsertOnUnique: true}
}

func TestMain(m *testing.M) {
	env = atenv.Get(atenv.Options{})
	env.Srv.SetLockWait(150 * time.Millisecond)
	ctx.Rec.SetRule("generator: single-branch AT programs (autocommit statement, or explicit transaction of 1–3 statements, via db or a pinned Conn) from the shared grammar. For each program the fault-free run is executed to learn the statements the proxy issues on the business connection (BEGIN, before-image select, business statement, after-image select, undo_log insert, COMMIT); then EVERY single-fault plan is executed on a rebuilt scenario: database error at statement k, dropped connection at statement k (k = 1..N), BranchRegister refused (lock conflict), transport error on register, BranchReport failing 1 (thorough: 2, 5) times. The caller behaves correctly (Rollback after an error in an explicit transaction). Oracle on the merged journal and final snapshot: writes and undo-log row both or neither; register reply < undo insert < COMMIT within one connection and engine transaction; nothing committed ⇒ error seen, and no error when committed; registered-but-not-committed ⇒ BranchReport(PhaseOne_Failed); no engine transaction left open. Non-trivial: a run whose injected fault position was reached. Distinct by (program shape, fault kind, position).")
	ctx.Rec.Assume("crash points are modelled as statement errors and dropped connections", "no-reply to register (20 s) is exercised in the thorough tier only")
	ctx.RunWitnesses(func(f stats.Finding) *pt.Failure {
		var c Case
		if err := json.Unmarshal(f.Witness, &c); err != nil {
			return nil
		}
		return runCase(c)
	})
	ctx.Main(m)
}

func drawCase(rt *rapid.T) Case {
	tables := []gen.TableSpec{gen.DrawTable(rt, 0)}
	br := gen.Branch{Mode: rapid.SampledFrom([]string{"auto", "tx"}).Draw(rt, "mode"), Via: rapid.SampledFrom([]string{"db", "conn"}).Draw(rt, "via")}
	ns := 1
	if br.Mode == "tx" {
		ns = rapid.IntRange(1, 3).Draw(rt, "nStmts")
	}
	for i := 0; i < ns; i++ {
		br.Stmts = append(br.Stmts, gen.DrawStmt(rt, tables, stmtOptions()))
	}
	if br.Mode == "tx" && rapid.IntRange(0, 3).Draw(rt, "keepGoing") == 0 {
		// a statement the database rejects in the middle of a transaction whose caller carries on and commits
		if dup := gen.DupInsert(rt, tables); dup != nil {
			br.KeepGoing = true
			k := rapid.IntRange(0, len(br.Stmts)).Draw(rt, "dupAt")
			br.Stmts = append(br.Stmts[:k], append([]gen.Stmt{*dup}, br.Stmts[k:]...)...)
		}
	}
	br.Prepared = rapid.IntRange(0, 3).Draw(rt, "prepared") == 0
	return Case{Tables: tables, Branch: br, Config: gen.Config{Serializer: "json", Compress: "None", Validation: true, OnlyUpdate: rapid.Bool().Draw(rt, "onlyUpdate")}}
}

func shape(c Case) string {
	var ks []string
	for _, s := range c.Branch.Stmts {
		ks = append(ks, s.Kind+"/"+s.Where)
	}
	return c.Branch.Mode + "/" + c.Branch.Via + ":" + strings.Join(ks, "+")
}

func TestPropEveryFaultPosition(t *testing.T) {
	ctx.Check(t, func(rt *rapid.T) {
		c := drawCase(rt)
		failingPlan = ""
		fl := runCase(c)
		labels := []string{"mode:" + c.Branch.Mode + "/" + c.Branch.Via}
		for _, s := range c.Branch.Stmts {
			labels = append(labels, "stmt:"+s.Kind)
		}
		ctx.Rec.Case("programs", last.reached > 0, shape(c), c, labels...)
		for k, n := range last.kinds {
			for i := 0; i < n; i++ {
				// every reached single-fault run is an evaluated, distinct (program, plan) case
				ctx.Rec.Case("fault-runs", true, fmt.Sprintf("%s|%s|%d", shape(c), k, i), map[string]interface{}{"program": shape(c), "plan": k, "index": i}, "fault:"+k)
			}
		}
		if fl != nil && failingPlan != "" {
			c.Plan = failingPlan
		}
		ctx.Judge(rt, "fault-positions", fl, c)
	})
}

// ---- the next statement on a connection whose previous phase one failed ----------------------

type afterCase struct {
	Kind string `json:"kind"` // after-fault
	Mode string `json:"mode"` // auto | tx (how the first, faulted statement runs)
	K    int    `json:"k"`    // the k-th phase-one statement of the first local transaction fails
	Drop bool   `json:"drop"` // … by losing the connection
}

var afterTally struct{ reached int }

// runAfterFault: on one pinned connection inside a global transaction a first statement meets a fault in
// its phase one; whatever happened to it, the next autocommit statement on that connection must again be
// a complete phase one (undo log in the same local transaction, branch registered before the commit).
func runAfterFault(c afterCase) *pt.Failure {
	return pt.Guard("C02/crash", func() *pt.Failure {
		env.ResetCase()
		env.CleanUndo()
		atenv.UndoConfig("json", "None", true, true)
		n := atenv.NextCase()
		t1, t2 := atenv.TableName(n, 0), atenv.TableName(n, 1)
		for _, tn := range []string{t1, t2} {
			for _, q := range []string{"CREATE TABLE " + tn + " (id INT PRIMARY KEY, v INT NOT NULL)", "INSERT INTO " + tn + " VALUES (1, 10), (2, 20)"} {
				if _, err := env.Bare.Exec(q); err != nil {
					return pt.Failf("C02/harness/setup", "%v", err)
				}
			}
		}
		defer env.DropTables([]string{t1, t2})
		env.Srv.ResetJournal()
		count := 0
		f := &memsql.Fault{DropConn: c.Drop, Match: func(e *memsql.Entry) bool {
			if !isPhaseOneStmt(e) {
				return false
			}
			count++
			return count == c.K
		}}
		env.Srv.AddFault(f)
		var res atenv.BranchResult
		xid, _ := atenv.Global("c02-after", func(cx context.Context) error {
			res = atenv.RunBranchOpt(cx, env.AT, atenv.BranchOpts{Mode: c.Mode, Via: "conn", After: &atenv.StmtText{SQL: "UPDATE " + t2 + " SET v = v + 1 WHERE id = 1"}},
				[]atenv.StmtText{{SQL: "UPDATE " + t1 + " SET v = v + 1 WHERE id = 1"}})
			return nil
		})
		env.Srv.ClearFaults()
		if f.Fired() == 0 || len(res.Stmts) < 2 {
			return nil
		}
		afterTally.reached++
		second := res.Stmts[len(res.Stmts)-1]
		changed := false
		for _, r := range env.Srv.Rows(atenv.Schema, t2) {
			if r["id"] == int64(1) && r["v"] != int64(10) {
				changed = true
			}
		}
		info := fmt.Sprintf("first statement (%s, fault at its statement %d, drop=%v) -> %+v; second statement -> %+v\n%s", c.Mode, c.K, c.Drop, res.Stmts[0], second, atenv.Tail(env.Srv.Journal(), 30))
		if _, open, _ := env.Srv.Stats(); open != 0 {
			return pt.Failf("C02/after-fault/transaction-left-open/"+c.Mode, "engine transaction left open on %v\n%s", env.Srv.OpenTxConns(), info)
		}
		if second.Err == "" && !changed {
			return pt.Failf("C02/after-fault/silent-loss/"+c.Mode, "the second statement reported success but its row did not change\n%s", info)
		}
		if !changed {
			return nil
		}
		hasUndo := false
		for _, u := range env.UndoRows(xid) {
			if b, ok := u["rollback_info"].([]byte); ok && strings.Contains(strings.ToUpper(string(b)), strings.ToUpper(t2)) {
				hasUndo = true
			}
		}
		if !hasUndo {
			return pt.Failf("C02/after-fault/writes-without-undo-log/"+c.Mode, "the statement after the failed phase one committed its row without an undo log\n%s", info)
		}
		registered := false
		for _, e := range env.TC.Events() {
			if b, ok := e.Body.(message.BranchRegisterRequest); ok && e.Dir == "c2s" && strings.Contains(strings.ToUpper(b.LockKey), strings.ToUpper(t2)+":") {
				registered = true
			}
		}
		if !registered {
			return pt.Failf("C02/after-fault/commit-without-registration/"+c.Mode, "the statement after the failed phase one committed without registering a branch\n%s", info)
		}
		return nil
	})
}

func TestPropStatementAfterFault(t *testing.T) {
	ctx.Check(t, func(rt *rapid.T) {
		c := afterCase{Kind: "after-fault", Mode: rapid.SampledFrom([]string{"auto", "tx"}).Draw(rt, "mode"), K: rapid.IntRange(1, 9).Draw(rt, "k"), Drop: rapid.IntRange(0, 3).Draw(rt, "drop") == 0}
		before := afterTally.reached
		fl := runAfterFault(c)
		ctx.Rec.Case("after-fault", afterTally.reached > before, fmt.Sprintf("after-fault|%s|%d|%v", c.Mode, c.K, c.Drop), c, "fault:after-fault")
		ctx.Judge(rt, "after-fault", fl, c)
	})
}

// ---- a second local transaction on the same pinned connection, same global transaction ---------

type secondCase struct {
	Kind   string `json:"kind"`   // second-tx
	First  string `json:"first"`  // how the first local transaction ends: commit | rollback | register-refused; plain-commit | plain-rollback = it is an ordinary local transaction before the global one, and the second statement runs in autocommit
	Stmt1  string `json:"stmt1"`  // update | insert | delete
	Second string `json:"second"` // read-only | write-other-table | write-same-row
}

// runSecondTx: two explicit local transactions under one xid on one pinned connection. The undo-log record
// written by the second one must describe the second one's writes and nothing else ("the business writes
// and the undo-log record become durable together or not at all": a record for a write that is not part of
// this local transaction — committed earlier, or rolled back — is durable without its write).
func runSecondTx(c secondCase) *pt.Failure {
	return pt.Guard("C02/crash", func() *pt.Failure {
		env.ResetCase()
		env.CleanUndo()
		atenv.UndoConfig("json", "None", true, true)
		n := atenv.NextCase()
		t1, t2 := atenv.TableName(n, 0), atenv.TableName(n, 1)
		for _, tn := range []string{t1, t2} {
			for _, q := range []string{"CREATE TABLE " + tn + " (id INT PRIMARY KEY, v INT NOT NULL)", "INSERT INTO " + tn + " VALUES (1, 10), (2, 20)"} {
				if _, err := env.Bare.Exec(q); err != nil {
					return pt.Failf("C02/harness/setup", "%v", err)
				}
			}
		}
		defer env.DropTables([]string{t1, t2})
		env.Srv.ResetJournal()
		env.TC.Reset()
		if c.First == "register-refused" {
			env.TC.Script(message.MessageTypeBranchRegister, faketc.Action{Kind: faketc.Fail, Msg: "lock conflict"})
		}
		q1 := map[string]string{"update": "UPDATE " + t1 + " SET v = v + 1 WHERE id = 1", "insert": "INSERT INTO " + t1 + " VALUES (7, 70)", "delete": "DELETE FROM " + t1 + " WHERE id = 2"}[c.Stmt1]
		q2 := map[string]string{"read-only": "SELECT v FROM " + t2 + " WHERE id = 2", "write-other-table": "UPDATE " + t2 + " SET v = v + 5 WHERE id = 2", "write-same-row": "UPDATE " + t1 + " SET v = v + 5 WHERE id = 1"}[c.Second]
		var steps []string
		var boundary int64
		conn, err := env.AT.Conn(context.Background())
		if err != nil {
			return pt.Failf("C02/harness/setup", "%v", err)
		}
		defer conn.Close()
		first := func(cx context.Context) error {
			tx, err := conn.BeginTx(cx, nil)
			if err != nil {
				steps = append(steps, "begin1: "+err.Error())
				return err
			}
			_, err = tx.ExecContext(cx, q1)
			steps = append(steps, fmt.Sprintf("stmt1 err=%v", err))
			if strings.HasSuffix(c.First, "rollback") {
				err = tx.Rollback()
			} else {
				err = tx.Commit()
			}
			steps = append(steps, fmt.Sprintf("end1(%s) err=%v", c.First, err))
			if j := env.Srv.Journal(); len(j) > 0 {
				boundary = j[len(j)-1].Seq
			}
			return nil
		}
		plainFirst := strings.HasPrefix(c.First, "plain-")
		if plainFirst {
			// the first local transaction is an ordinary one, outside any global transaction
			if err := first(context.Background()); err != nil {
				return pt.Failf("C02/harness/setup", "%v", err)
			}
		}
		_, _ = atenv.Global("c02-second", func(cx context.Context) error {
			if plainFirst {
				// … and the same connection then runs an autocommit statement inside a global transaction
				var err error
				if c.Second == "read-only" {
					rows, e := conn.QueryContext(cx, q2)
					if e == nil {
						for rows.Next() {
						}
						rows.Close()
					}
					err = e
				} else {
					_, err = conn.ExecContext(cx, q2)
				}
				steps = append(steps, fmt.Sprintf("stmt2 (autocommit) err=%v", err))
				return nil
			}
			if err := first(cx); err != nil {
				return err
			}
			tx, err := conn.BeginTx(cx, nil)
			if err != nil {
				steps = append(steps, "begin2: "+err.Error())
				return err
			}
			if c.Second == "read-only" {
				rows, e := tx.QueryContext(cx, q2)
				if e == nil {
					for rows.Next() {
					}
					rows.Close()
				}
				err = e
			} else {
				_, err = tx.ExecContext(cx, q2)
			}
			steps = append(steps, fmt.Sprintf("stmt2 err=%v", err))
			err = tx.Commit()
			steps = append(steps, fmt.Sprintf("commit2 err=%v", err))
			return nil
		})
		// what the second local transaction wrote, and what its undo-log record describes
		written := map[string]bool{}
		var recorded []string
		for _, e := range env.Srv.JournalSince(boundary) {
			if e.Err != "" {
				continue
			}
			if strings.Contains(strings.ToLower(e.Query), "insert into undo_log") {
				for _, a := range e.Args {
					b, ok := a.([]byte)
					if !ok || !strings.Contains(string(b), "sqlUndoLogs") {
						continue
					}
					var u struct {
						Logs []struct {
							TableName string `json:"tableName"`
						} `json:"sqlUndoLogs"`
					}
					if err := json.Unmarshal(b, &u); err == nil {
						for _, l := range u.Logs {
							recorded = append(recorded, strings.ToLower(strings.Trim(l.TableName, "`")))
						}
					}
				}
				continue
			}
			if strings.Contains(strings.ToLower(e.Query), "undo_log") {
				continue
			}
			for _, w := range e.Writes {
				written[strings.ToLower(w.Table)] = true
			}
		}
		info := fmt.Sprintf("first local transaction: %s, ends by %s; second: %s\nsteps: %v\n%s", q1, c.First, q2, steps, atenv.Tail(env.Srv.Journal(), 30))
		if _, open, _ := env.Srv.Stats(); open != 0 {
			return pt.Failf("C02/second-tx/transaction-left-open", "engine transaction left open on %v\n%s", env.Srv.OpenTxConns(), info)
		}
		wantRecords := 0
		if c.Second != "read-only" {
			wantRecords = 1
		}
		if len(recorded) > wantRecords {
			return pt.Failf("C02/second-tx/undo-record-for-foreign-write/"+c.First+"/"+c.Second, "the second local transaction wrote %v, its undo log describes statements on %v\n%s", keysOf(written), recorded, info)
		}
		for _, tn := range recorded {
			if !written[tn] {
				return pt.Failf("C02/second-tx/undo-record-for-foreign-write/"+c.First+"/"+c.Second, "the second local transaction wrote %v, its undo log describes a statement on %s\n%s", keysOf(written), tn, info)
			}
		}
		if len(written) > 0 && len(recorded) == 0 {
			return pt.Failf("C02/second-tx/writes-without-undo-log/"+c.First+"/"+c.Second, "the second local transaction wrote %v without an undo-log record\n%s", keysOf(written), info)
		}
		return nil
	})
}

func keysOf(m map[string]bool) []string {
	var out []string
	for k := range m {
		out = append(out, k)
	}
	return out
}

func TestPropSecondLocalTx(t *testing.T) {
	ctx.Check(t, func(rt *rapid.T) {
		c := secondCase{Kind: "second-tx", First: rapid.SampledFrom([]string{"commit", "rollback", "register-refused", "plain-commit", "plain-rollback"}).Draw(rt, "first"),
			Stmt1: rapid.SampledFrom([]string{"update", "insert", "delete"}).Draw(rt, "stmt1"), Second: rapid.SampledFrom([]string{"read-only", "write-other-table", "write-same-row"}).Draw(rt, "second")}
		fl := runSecondTx(c)
		ctx.Rec.Case("second-tx", true, fmt.Sprintf("second-tx|%s|%s|%s", c.First, c.Stmt1, c.Second), c, "kind:second-tx")
		ctx.Judge(rt, "second-tx", fl, c)
	})
}

// TestPropRegisterNoReply: the coordinator never answers BranchRegister (thorough tier only: 20 s).
func TestPropRegisterNoReply(t *testing.T) {
	if !stats.Thorough() {
		t.Skip("thorough only")
	}
	defer ctx.Rec.Flush()
	tb := gen.TableSpec{KeyShape: "int", Cols: []gen.ColSpec{{Name: "id", Type: "INT", Base: "INT"}, {Name: "c0", Type: "INT", Base: "INT", Nullable: true}}, PK: []string{"id"},
		Rows: [][]gen.Lit{{{Kind: "int", I: 1}, {Kind: "int", I: 5}}}}
	c := Case{Tables: []gen.TableSpec{tb}, Branch: gen.Branch{Mode: "auto", Via: "db", Stmts: []gen.Stmt{{Kind: "update", Table: 0, SQL: "UPDATE {T0} SET c0 = ? WHERE id = ?", Args: []gen.Lit{{Kind: "int", I: 9}, {Kind: "int", I: 1}}, SetCols: []string{"c0"}}}},
		Config: gen.Config{Serializer: "json", Compress: "None", Validation: true, OnlyUpdate: true}, Plan: "register-noreply"}
	fl := runCase(c)
	ctx.Rec.Case("register-noreply", true, "register-noreply", c, "fault:register-noreply")
	ctx.Judge(t, "register-noreply", fl, c)
}

func TestPropReplaySaved(t *testing.T) {
	ctx.ReplayAll(t, func(v *stats.Violation) *pt.Failure {
		var a afterCase
		if err := json.Unmarshal(v.Case, &a); err == nil && a.Kind == "after-fault" {
			return runAfterFault(a)
		}
		var sc secondCase
		if err := json.Unmarshal(v.Case, &sc); err == nil && sc.Kind == "second-tx" {
			return runSecondTx(sc)
		}
		var c Case
		if err := json.Unmarshal(v.Case, &c); err != nil {
			return pt.Failf("C02/replay", "bad case: %v", err)
		}
		return runCase(c)
	})
}

func TestReplay(t *testing.T) {
	var c Case
	v, ok := pt.Replay(t, &c)
	if !ok {
		t.Skip("no VERIF_REPLAY_FILE")
	}
	defer ctx.Rec.Flush()
	var a afterCase
	var sc secondCase
	if err := json.Unmarshal(v.Case, &a); err == nil && a.Kind == "after-fault" {
		fl := runAfterFault(a)
		ctx.Rec.Case("replay", true, string(v.Case), a)
		ctx.Judge(t, v.Test, fl, a)
		return
	}
	if err := json.Unmarshal(v.Case, &sc); err == nil && sc.Kind == "second-tx" {
		fl := runSecondTx(sc)
		ctx.Rec.Case("replay", true, string(v.Case), sc)
		ctx.Judge(t, v.Test, fl, sc)
		return
	}
	fl := runCase(c)
	ctx.Rec.Case("replay", true, shape(c)+c.Plan, c)
	ctx.Judge(t, v.Test, fl, c)
}
