// C05 — TCC branches are registered before try and dispatched faithfully in phase two.
package c05

import (
	"context"
	"encoding/json"
	"errors"
	"fmt"
	"reflect"
	"sync"
	"sync/atomic"
	"testing"
	"time"

	"pgregory.net/rapid"

	"seata.apache.org/seata-go/pkg/protocol/branch"
	"seata.apache.org/seata-go/pkg/protocol/message"
	"seata.apache.org/seata-go/pkg/rm/tcc"
	"seata.apache.org/seata-go/pkg/tm"

	"verifharness/boot"
	"verifharness/faketc"
	"verifharness/jclock"
	"verifharness/pt"
	"verifharness/stats"
)

var (
	ctx  = pt.New("C05")
	tc   *faketc.TC
	sess *faketc.Session
)

// ---- recording actions -----------------------------------------------------------------------

type invocation struct {
	tick     int64
	xid      string
	branchID int64
	name     string
	ctxJSON  string
}

type action struct {
	name string
	mu   sync.Mutex
	// per-case script / record
	tryErr, commitErr, rollbackErr bool
	resultFalse                    bool
	tries                          []int64 // ticks
	commits, rollbacks             []invocation
}

func (a *action) reset() {
	a.mu.Lock()
	a.tryErr, a.commitErr, a.rollbackErr = false, false, false
	a.resultFalse = false
	a.tries, a.commits, a.rollbacks = nil, nil, nil
	a.mu.Unlock()
}

func (a *action) Prepare(ctx context.Context, params interface{}) (bool, error) {
	a.mu.Lock()
	defer a.mu.Unlock()
	a.tries = append(a.tries, jclock.Tick())
	if a.tryErr {
		return false, errors.New("try failed")
	}
	return true, nil
}

func inv(b *tm.BusinessActionContext) invocation {
	j, _ := json.Marshal(b.ActionContext)
	return invocation{tick: jclock.Tick(), xid: b.Xid, branchID: b.BranchId, name: b.ActionName, ctxJSON: string(j)}
}

func (a *action) Commit(ctx context.Context, b *tm.BusinessActionContext) (bool, error) {
	a.mu.Lock()
	defer a.mu.Unlock()
	a.commits = append(a.commits, inv(b))
	if a.commitErr {
		// the boolean is independent of the error: (true, err) is still a failure
		return !a.resultFalse, errors.New("confirm failed")
	}
	return !a.resultFalse, nil
}

func (a *action) Rollback(ctx context.Context, b *tm.BusinessActionContext) (bool, error) {
	a.mu.Lock()
	defer a.mu.Unlock()
	a.rollbacks = append(a.rollbacks, inv(b))
	if a.rollbackErr {
		return !a.resultFalse, errors.New("cancel failed")
	}
	return !a.resultFalse, nil
}
func (a *action) GetActionName() string { return a.name }

var (
	actions []*action
	proxies []*tcc.TCCServiceProxy
)

// ---- parameter shapes ------------------------------------------------------------------------

type inner struct {
	X int    `json:"x"`
	Y string `json:"y"`
}
type shapeTagged struct {
	A string  `tccParam:"a"`
	B int64   `tccParam:"b"`
	C float64 `tccParam:"c"`
}
type shapeUntagged struct {
	A string
	B int64
}
type shapeDash struct {
	A string `tccParam:"-"`
	B int64  `tccParam:""`
	C bool   `tccParam:"c"`
}
type shapeUnexported struct {
	a string `tccParam:"a"`
	B int64  `tccParam:"b"`
}
type shapeNested struct {
	In inner             `tccParam:"in"`
	L  []int64           `tccParam:"l"`
	M  map[string]string `tccParam:"m"`
}
type shapeEmbeddedCtx struct {
	tm.BusinessActionContext
	A string `tccParam:"a"`
}
type shapeCtxPtr struct {
	Ctx *tm.BusinessActionContext
	B   int64 `tccParam:"b"`
}

type shapeNilable struct {
	P *string           `tccParam:"p"`
	L []int64           `tccParam:"l"`
	M map[string]string `tccParam:"m"`
	I interface{}       `tccParam:"i"`
	Q *inner            `tccParam:"q"`
	N string            `tccParam:"n"`
}

type FieldSpec struct {
	Kind int    `json:"kind"` // 0 string 1 int64 2 bool 3 float64
	Tag  string `json:"tag"`  // "" = no tag at all, "-" , or a key
}

type Param struct {
	Shape  int         `json:"shape"`
	S      []string    `json:"s,omitempty"`
	I      []int64     `json:"i,omitempty"`
	F      []float64   `json:"f,omitempty"`
	B      []bool      `json:"b,omitempty"`
	Fields []FieldSpec `json:"fields,omitempty"` // shape 10: reflect.StructOf
}

var shapeNames = []string{"tagged", "untagged", "dash-or-empty-tag", "unexported-field", "nested", "pointer-to-tagged", "embedded-action-context", "action-context-pointer-field", "map-non-struct", "string-non-struct", "struct-of", "nil-able-fields", "local-type-P-1", "local-type-P-2"}

func (p Param) s(i int) string {
	if i < len(p.S) {
		return p.S[i]
	}
	return ""
}
func (p Param) i(k int) int64 {
	if k < len(p.I) {
		return p.I[k]
	}
	return 0
}
func (p Param) f(k int) float64 {
	if k < len(p.F) {
		return p.F[k]
	}
	return 0
}
func (p Param) b(k int) bool {
	if k < len(p.B) {
		return p.B[k]
	}
	return false
}

// build returns the parameter value and the tagged fields the action context must contain.
func (p Param) build() (interface{}, map[string]interface{}) {
	switch p.Shape {
	case 0:
		return shapeTagged{p.s(0), p.i(0), p.f(0)}, map[string]interface{}{"a": p.s(0), "b": p.i(0), "c": p.f(0)}
	case 1:
		return shapeUntagged{p.s(0), p.i(0)}, map[string]interface{}{}
	case 2:
		return shapeDash{p.s(0), p.i(0), p.b(0)}, map[string]interface{}{"c": p.b(0)}
	case 3:
		return shapeUnexported{p.s(0), p.i(0)}, map[string]interface{}{"b": p.i(0)}
	case 4:
		v := shapeNested{In: inner{int(p.i(0) % 1000), p.s(0)}, L: p.I, M: map[string]string{"k": p.s(1)}}
		return v, map[string]interface{}{"in": v.In, "l": v.L, "m": v.M}
	case 5:
		return &shapeTagged{p.s(0), p.i(0), p.f(0)}, map[string]interface{}{"a": p.s(0), "b": p.i(0), "c": p.f(0)}
	case 6:
		v := shapeEmbeddedCtx{A: p.s(0)}
		if p.b(1) {
			// the context object comes from an earlier prepare and still holds what that one left in it:
			// the new branch registers its own tagged parameters, nothing else
			v.BusinessActionContext.ActionContext = map[string]interface{}{"stale": p.s(1), "a": "from-an-earlier-prepare"}
		}
		return v, map[string]interface{}{"a": p.s(0)}
	case 7:
		v := shapeCtxPtr{Ctx: &tm.BusinessActionContext{}, B: p.i(0)}
		if p.b(1) {
			v.Ctx.ActionContext = map[string]interface{}{"stale": p.s(1), "b": "from-an-earlier-prepare"}
		}
		return v, map[string]interface{}{"b": p.i(0)}
	case 8:
		return map[string]int64{"x": p.i(0)}, map[string]interface{}{}
	case 9:
		return p.s(0), map[string]interface{}{}
	case 12:
		return localP1(p)
	case 13:
		return localP2(p)
	case 11:
		// tagged fields of nil-able kinds, each nil or set: a nil one is still a tagged parameter (JSON null)
		v := shapeNilable{N: p.s(1)}
		if !p.b(0) {
			x := p.s(0)
			v.P = &x
		}
		if !p.b(1) {
			v.L = append([]int64{}, p.I[:len(p.I)-1]...) // possibly empty but not nil
		}
		if !p.b(2) {
			v.M = map[string]string{"k": p.s(1)}
		}
		if !p.b(3) {
			v.I = p.i(0)
		}
		if p.b(0) != p.b(1) {
			v.Q = &inner{int(p.i(0) % 1000), p.s(0)}
		}
		return v, map[string]interface{}{"p": v.P, "l": v.L, "m": v.M, "i": v.I, "q": v.Q, "n": v.N}
	case 10:
		var fs []reflect.StructField
		for k, f := range p.Fields {
			var t reflect.Type
			switch f.Kind {
			case 0:
				t = reflect.TypeOf("")
			case 1:
				t = reflect.TypeOf(int64(0))
			case 2:
				t = reflect.TypeOf(false)
			default:
				t = reflect.TypeOf(float64(0))
			}
			sf := reflect.StructField{Name: fmt.Sprintf("F%d", k), Type: t}
			if f.Tag != "" {
				sf.Tag = reflect.StructTag(fmt.Sprintf(`tccParam:%q`, f.Tag))
			}
			if f.Tag == "<empty>" {
				sf.Tag = `tccParam:""`
			}
			fs = append(fs, sf)
		}
		v := reflect.New(reflect.StructOf(fs)).Elem()
		want := map[string]interface{}{}
		for k, f := range p.Fields {
			var val interface{}
			switch f.Kind {
			case 0:
				v.Field(k).SetString(p.s(k))
				val = p.s(k)
			case 1:
				v.Field(k).SetInt(p.i(k))
				val = p.i(k)
			case 2:
				v.Field(k).SetBool(p.b(k))
				val = p.b(k)
			default:
				v.Field(k).SetFloat(p.f(k))
				val = p.f(k)
			}
			if f.Tag != "" && f.Tag != "-" && f.Tag != "<empty>" {
				want[f.Tag] = val
			}
		}
		return v.Interface(), want
	}
	panic("shape")
}

// Two different parameter types that print the same (function-local types both named P): what is known
// about one type must not be applied to the other.
func localP1(p Param) (interface{}, map[string]interface{}) {
	type P struct {
		OrderID string `tccParam:"orderId"`
		Amount  int64  `tccParam:"amount"`
	}
	return P{p.s(0), p.i(0)}, map[string]interface{}{"orderId": p.s(0), "amount": p.i(0)}
}

func localP2(p Param) (interface{}, map[string]interface{}) {
	type P struct {
		Plain string
		Sku   string  `tccParam:"sku"`
		Count float64 `tccParam:"count"`
		Note  bool    `tccParam:"note"`
	}
	return P{p.s(1), p.s(0), p.f(0), p.b(0)}, map[string]interface{}{"sku": p.s(0), "count": p.f(0), "note": p.b(0)}
}

// ---- case ------------------------------------------------------------------------------------

type Step struct {
	Action int    `json:"action"`
	Param  Param  `json:"param"`
	Reg    string `json:"register"` // ok | fail | transport
	TryErr bool   `json:"try_err,omitempty"`
}

type P2 struct {
	Branch    int    `json:"branch"`   // index into the registered branches
	Rollback  bool   `json:"rollback"` // else commit
	Resource  string `json:"resource,omitempty"`
	Data      string `json:"data"` // echo | empty | malformed | nonobject
	MethodErr bool   `json:"method_err,omitempty"`
	// ResultFalse: the user method returns (false, nil). The statement ties the status to the error
	// only, so this must still be reported as committed / rollbacked.
	ResultFalse bool `json:"result_false,omitempty"`
}

type Case struct {
	Steps  []Step `json:"steps"`
	Phase2 []P2   `json:"phase2"`
	// Reregister: bit i set = before the transaction, action i's name is registered again with a new
	// service instance (a re-created service object): try and phase two must reach the new instance
	Reregister int `json:"reregister,omitempty"`
	// LateAction: at the end an action with a new name is registered and gets a phase-two request while its
	// registration is still in flight
	LateAction bool `json:"late_action,omitempty"`
}

func canon(v interface{}) string {
	b, err := json.Marshal(v)
	if err != nil {
		return "marshal-error:" + err.Error()
	}
	var x interface{}
	_ = json.Unmarshal(b, &x)
	b, _ = json.Marshal(x)
	return string(b)
}

var sysKeys = []string{"action-start-time", "sys::prepare", "sys::commit", "sys::rollback", "actionName", "host-name"}

type stepObs struct {
	err      error
	panicked interface{}
	tries    int
	tryTick  int64
}

func runCase(c Case) *pt.Failure {
	return pt.Guard("C05/crash", func() *pt.Failure { return execute(c) })
}

func execute(c Case) *pt.Failure {
	tc.Reset()
	tm.InitTm(tm.TmConfig{CommitRetryCount: 1, RollbackRetryCount: 1, DefaultGlobalTransactionTimeout: 60 * time.Second})
	for i := range actions {
		if c.Reregister&(1<<i) != 0 {
			na := &action{name: actions[i].name}
			p, err := tcc.NewTCCServiceProxy(na)
			if err != nil {
				return pt.Failf("C05/reregister-refused", "registering action %q again failed: %v", na.name, err)
			}
			actions[i], proxies[i] = na, p
		}
	}
	tc.Quiesce(time.Second)
	for _, a := range actions {
		a.reset()
	}
	for _, st := range c.Steps {
		switch st.Reg {
		case "fail":
			tc.Script(message.MessageTypeBranchRegister, faketc.Action{Kind: faketc.Fail, Msg: "register refused"})
		case "transport":
			tc.Script(message.MessageTypeBranchRegister, faketc.Action{Kind: faketc.TransportError})
		default:
			tc.Script(message.MessageTypeBranchRegister, faketc.Action{})
		}
	}
	obs := make([]stepObs, len(c.Steps))
	var xid string
	type regRange struct{ from, to int64 }
	ranges := make([]regRange, len(c.Steps))
	err := tm.WithGlobalTx(context.Background(), &tm.GtxConfig{Name: "c05"}, func(cx context.Context) error {
		xid = tm.GetXID(cx)
		for i, st := range c.Steps {
			a := actions[st.Action%len(actions)]
			a.mu.Lock()
			a.tryErr = st.TryErr
			before := len(a.tries)
			a.mu.Unlock()
			val, _ := st.Param.build()
			ranges[i].from = jclock.Now()
			func() {
				defer func() { obs[i].panicked = recover() }()
				_, obs[i].err = proxies[st.Action%len(proxies)].Prepare(cx, val)
			}()
			ranges[i].to = jclock.Now()
			a.mu.Lock()
			obs[i].tries = len(a.tries) - before
			if obs[i].tries > 0 {
				obs[i].tryTick = a.tries[len(a.tries)-1]
			}
			a.mu.Unlock()
		}
		return nil
	})
	_ = err
	events := tc.Events()
	// per step: the register requests sent during the step
	var registered []*faketc.Branch // in registration order, only successful ones
	stepBranch := make([]*faketc.Branch, len(c.Steps))
	for i, st := range c.Steps {
		a := actions[st.Action%len(actions)]
		_, want := st.Param.build()
		var regs []faketc.Event
		var replySeq int64 = -1
		for _, e := range events {
			if e.Seq <= ranges[i].from || e.Seq > ranges[i].to {
				continue
			}
			if _, ok := e.Body.(message.BranchRegisterRequest); ok && (e.Dir == "c2s" || e.Dir == "err") {
				regs = append(regs, e)
			}
			if _, ok := e.Body.(message.BranchRegisterResponse); ok && e.Dir == "s2c" {
				replySeq = e.Seq
			}
		}
		shape := shapeNames[st.Param.Shape]
		if obs[i].panicked != nil && len(regs) == 0 && obs[i].tries == 0 {
			continue // prepare panicked before anything happened (non-struct pointer shapes): nothing registered, try not run
		}
		if len(regs) != 1 {
			return pt.Failf("C05/register-count/"+shape, "step %d (%s): %d BranchRegisterRequests for one Prepare (panic=%v err=%v)", i, shape, len(regs), obs[i].panicked, obs[i].err)
		}
		req := regs[0].Body.(message.BranchRegisterRequest)
		if req.BranchType != branch.BranchTypeTCC || req.ResourceId != a.name || req.Xid != xid {
			return pt.Failf("C05/register-fields", "step %d: register request type=%v resource=%q xid=%q, expected TCC %q %q", i, req.BranchType, req.ResourceId, req.Xid, a.name, xid)
		}
		var data map[string]interface{}
		if err := json.Unmarshal(req.ApplicationData, &data); err != nil {
			return pt.Failf("C05/register-appdata/"+shape, "step %d: application data is not JSON: %q", i, req.ApplicationData)
		}
		ac, _ := data["actionContext"].(map[string]interface{})
		if ac == nil {
			return pt.Failf("C05/register-appdata/"+shape, "step %d: application data has no actionContext object: %q", i, req.ApplicationData)
		}
		user := map[string]interface{}{}
		for k, v := range ac {
			user[k] = v
		}
		for _, k := range sysKeys {
			if _, ok := want[k]; !ok {
				delete(user, k)
			}
		}
		if canon(user) != canon(want) {
			return pt.Failf("C05/register-params/"+shape, "step %d (%s): registered parameters %s, tagged fields of the parameter %s", i, shape, canon(user), canon(want))
		}
		if st.Reg != "ok" {
			if obs[i].tries != 0 {
				return pt.Failf("C05/try-after-failed-register", "step %d: registration %s but try ran", i, st.Reg)
			}
			if obs[i].err == nil && obs[i].panicked == nil {
				return pt.Failf("C05/failed-register-not-surfaced", "step %d: registration %s but Prepare returned nil", i, st.Reg)
			}
			continue
		}
		if obs[i].panicked == nil {
			if obs[i].tries != 1 {
				return pt.Failf("C05/try-count", "step %d: try ran %d times", i, obs[i].tries)
			}
			if replySeq < 0 || replySeq > obs[i].tryTick {
				return pt.Failf("C05/try-before-register", "step %d: try started at %d, register reply at %d", i, obs[i].tryTick, replySeq)
			}
			if (obs[i].err != nil) != st.TryErr {
				return pt.Failf("C05/prepare-result", "step %d: try error=%v, Prepare returned %v", i, st.TryErr, obs[i].err)
			}
		}
		// which branch did the coordinator create for this step?
		for _, b := range tc.Branches() {
			if b.RegSeq > ranges[i].from && b.RegSeq <= ranges[i].to {
				stepBranch[i] = b
				registered = append(registered, b)
			}
		}
	}
	// ---- phase two
	for j, p := range c.Phase2 {
		if len(registered) == 0 {
			break
		}
		b := registered[p.Branch%len(registered)]
		var a *action
		for _, x := range actions {
			if x.name == b.ResourceID {
				a = x
			}
		}
		res := b.ResourceID
		if p.Resource != "" {
			res = p.Resource
		}
		data := b.AppData
		switch p.Data {
		case "empty":
			data = nil
		case "malformed":
			data = []byte(`{"actionContext":`)
		case "nonobject":
			data = []byte(`{"actionContext":[1,2]}`)
		}
		type snap struct{ c, r int }
		before := map[*action]snap{}
		for _, x := range actions {
			x.mu.Lock()
			before[x] = snap{len(x.commits), len(x.rollbacks)}
			x.commitErr, x.rollbackErr = p.MethodErr, p.MethodErr
			x.resultFalse = p.ResultFalse
			x.mu.Unlock()
		}
		end := message.AbstractBranchEndRequest{Xid: b.Xid, BranchId: b.ID, BranchType: branch.BranchTypeTCC, ResourceId: res, ApplicationData: data}
		var body interface{} = message.BranchCommitRequest{AbstractBranchEndRequest: end}
		if p.Rollback {
			body = message.BranchRollbackRequest{AbstractBranchEndRequest: end}
		}
		expectReply := p.Resource == "" && !p.MethodErr && (p.Data == "echo" || p.Data == "empty")
		wait := 150 * time.Millisecond
		if expectReply {
			wait = 3 * time.Second
		}
		resp, got := tc.Request(sess, body, wait)
		tc.Quiesce(2 * time.Second)
		// invocations
		total := 0
		for _, x := range actions {
			x.mu.Lock()
			dc, dr := len(x.commits)-before[x].c, len(x.rollbacks)-before[x].r
			x.mu.Unlock()
			total += dc + dr
			if x != a && dc+dr > 0 {
				return pt.Failf("C05/phase2-wrong-action", "phase-two %d for resource %q invoked action %q", j, res, x.name)
			}
			if x == a && p.Resource == "" {
				if p.Rollback && dc > 0 || !p.Rollback && dr > 0 {
					return pt.Failf("C05/phase2-wrong-method", "phase-two %d (rollback=%v) invoked commits=%d rollbacks=%d", j, p.Rollback, dc, dr)
				}
			}
		}
		st := int8(-1)
		if got {
			switch r := resp.Body.(type) {
			case message.BranchCommitResponse:
				st = int8(r.BranchStatus)
				if r.Xid != b.Xid || r.BranchId != b.ID {
					return pt.Failf("C05/phase2-response-address", "response carries xid=%q branch=%d", r.Xid, r.BranchId)
				}
			case message.BranchRollbackResponse:
				st = int8(r.BranchStatus)
				if r.Xid != b.Xid || r.BranchId != b.ID {
					return pt.Failf("C05/phase2-response-address", "response carries xid=%q branch=%d", r.Xid, r.BranchId)
				}
			}
		}
		succ := st == branch.BranchStatusPhasetwoCommitted || st == branch.BranchStatusPhasetwoRollbacked
		switch {
		case p.Resource != "":
			if total != 0 {
				return pt.Failf("C05/unknown-resource-runs-user-code", "phase-two %d for unknown resource %q ran user code", j, res)
			}
			if succ {
				return pt.Failf("C05/unknown-resource-success", "phase-two %d for unknown resource reported success", j)
			}
		case p.Data == "malformed" || p.Data == "nonobject":
			if succ && total == 0 {
				return pt.Failf("C05/malformed-data-success", "phase-two %d with %s application data reported success without running the action", j, p.Data)
			}
		default:
			if total != 1 {
				return pt.Failf("C05/phase2-invocations", "phase-two %d (rollback=%v data=%s) invoked the action %d times", j, p.Rollback, p.Data, total)
			}
			a.mu.Lock()
			var iv invocation
			if p.Rollback {
				iv = a.rollbacks[len(a.rollbacks)-1]
			} else {
				iv = a.commits[len(a.commits)-1]
			}
			a.mu.Unlock()
			if iv.xid != b.Xid || iv.branchID != b.ID {
				return pt.Failf("C05/phase2-identity", "action invoked with xid=%q branch=%d for request xid=%q branch=%d", iv.xid, iv.branchID, b.Xid, b.ID)
			}
			if p.Data == "echo" {
				var reg map[string]interface{}
				_ = json.Unmarshal(b.AppData, &reg)
				if canon(json.RawMessage(iv.ctxJSON)) != canon(reg["actionContext"]) {
					return pt.Failf("C05/phase2-context", "action context at phase two %s differs from what was registered %s", iv.ctxJSON, canon(reg["actionContext"]))
				}
			}
			if p.MethodErr && succ {
				return pt.Failf("C05/phase2-success-on-error", "user method returned an error but status %d was reported", st)
			}
			if !p.MethodErr && !succ {
				return pt.Failf("C05/phase2-no-success", "user method returned nil but reported status is %d (response received: %v)", st, got)
			}
			want := int8(branch.BranchStatusPhasetwoCommitted)
			if p.Rollback {
				want = branch.BranchStatusPhasetwoRollbacked
			}
			if !p.MethodErr && st != want {
				return pt.Failf("C05/phase2-status", "rollback=%v reported status %d", p.Rollback, st)
			}
		}
	}
	if c.LateAction {
		if fl := lateAction(); fl != nil {
			return fl
		}
	}
	return nil
}

var lateSeq int64

// lateAction: an action is registered while the process is already running, and the coordinator delivers a
// phase-two request for it as soon as it has received the registration, before its reply reaches the client
// (a coordinator that redelivers the pending branches of a restarted participant). The action must be invoked.
func lateAction() *pt.Failure {
	name := fmt.Sprintf("c05-late-%d", atomic.AddInt64(&lateSeq, 1))
	la := &action{name: name}
	var status int8 = -1
	answered := false
	tc.Script(message.RegisterRMRequest{}.GetTypeCode(), faketc.Action{Before: func(m message.RpcMessage) {
		req := message.BranchCommitRequest{AbstractBranchEndRequest: message.AbstractBranchEndRequest{Xid: tc.Addr + ":555", BranchId: 9, BranchType: branch.BranchTypeTCC, ResourceId: name, ApplicationData: []byte(`{"actionContext":{"k":1}}`)}}
		if resp, ok := tc.Request(sess, req, 3*time.Second); ok {
			if r, ok := resp.Body.(message.BranchCommitResponse); ok {
				status, answered = int8(r.BranchStatus), true
			}
		}
	}})
	if _, err := tcc.NewTCCServiceProxy(la); err != nil {
		return pt.Failf("C05/late-registration-refused", "registering action %q failed: %v", name, err)
	}
	tc.Quiesce(2 * time.Second)
	la.mu.Lock()
	n := len(la.commits)
	la.mu.Unlock()
	if n != 1 || !answered || status != int8(branch.BranchStatusPhasetwoCommitted) {
		return pt.Failf("C05/phase2-during-registration", "a commit request delivered while action %q was being registered: invocations=%d answered=%v status=%d", name, n, answered, status)
	}
	return nil
}

// ---- generator -------------------------------------------------------------------------------

var strs = []string{"", "a", "hello", "中文", `q"uo\te`, "{\"x\":1}", "123", "\u0000"}

func drawParam(t *rapid.T) Param {
	p := Param{Shape: rapid.IntRange(0, 13).Draw(t, "shape")}
	p.S = rapid.SliceOfN(rapid.OneOf(rapid.SampledFrom(strs), rapid.StringN(0, 8, 24)), 2, 4).Draw(t, "s")
	p.I = rapid.SliceOfN(rapid.OneOf(rapid.SampledFrom([]int64{0, 1, -1, 1 << 53, 1<<53 + 1, 1<<63 - 1, -1 << 63}), rapid.Int64()), 1, 4).Draw(t, "i")
	p.F = rapid.SliceOfN(rapid.OneOf(rapid.SampledFrom([]float64{0, 1.5, -2.25, 1e300, 5e-324}), rapid.Float64Range(-1e9, 1e9)), 1, 4).Draw(t, "f")
	p.B = rapid.SliceOfN(rapid.Bool(), 1, 4).Draw(t, "b")
	if p.Shape == 10 {
		n := rapid.IntRange(1, 4).Draw(t, "nFields")
		for k := 0; k < n; k++ {
			p.Fields = append(p.Fields, FieldSpec{Kind: rapid.IntRange(0, 3).Draw(t, "kind"),
				Tag: rapid.SampledFrom([]string{"", "-", "<empty>", "k0", "k1", "k1", "名"}).Draw(t, "tag")})
		}
	}
	return p
}

func drawCase(t *rapid.T) Case {
	var c Case
	n := rapid.IntRange(1, 3).Draw(t, "steps")
	for i := 0; i < n; i++ {
		c.Steps = append(c.Steps, Step{Action: rapid.IntRange(0, 2).Draw(t, "action"), Param: drawParam(t),
			Reg:    rapid.SampledFrom([]string{"ok", "ok", "ok", "ok", "fail", "transport"}).Draw(t, "reg"),
			TryErr: rapid.IntRange(0, 4).Draw(t, "tryErr") == 0})
	}
	m := rapid.IntRange(0, 4).Draw(t, "phase2")
	for i := 0; i < m; i++ {
		p := P2{Branch: rapid.IntRange(0, 2).Draw(t, "branch"), Rollback: rapid.Bool().Draw(t, "rollback"),
			Data:      rapid.SampledFrom([]string{"echo", "echo", "echo", "echo", "empty", "malformed", "nonobject"}).Draw(t, "data"),
			MethodErr: rapid.IntRange(0, 3).Draw(t, "methodErr") == 0, ResultFalse: rapid.IntRange(0, 3).Draw(t, "resultFalse") == 0}
		if rapid.IntRange(0, 5).Draw(t, "unknownRes") == 0 {
			p.Resource = "no-such-action"
		}
		c.Phase2 = append(c.Phase2, p)
	}
	c.LateAction = rapid.IntRange(0, 7).Draw(t, "lateAction") == 0
	if rapid.IntRange(0, 5).Draw(t, "reregister") == 0 {
		c.Reregister = rapid.IntRange(1, 7).Draw(t, "reregisterMask")
	}
	return c
}

func record(test string, c Case) {
	tagged := false
	labels := []string{}
	var shape string
	for _, st := range c.Steps {
		_, want := st.Param.build()
		tagged = tagged || len(want) > 0
		labels = append(labels, "shape:"+shapeNames[st.Param.Shape], "register:"+st.Reg)
		shape += fmt.Sprintf("%d/%s/%v/%d;", st.Param.Shape, st.Reg, st.TryErr, len(want))
	}
	for _, p := range c.Phase2 {
		labels = append(labels, "p2-data:"+p.Data)
		shape += fmt.Sprintf("p%d%v%s%s%v;", p.Branch, p.Rollback, p.Data, p.Resource, p.MethodErr) + fmt.Sprint(p.ResultFalse)
	}
	ctx.Rec.Case(test, tagged && len(c.Phase2) > 0, shape, c, labels...)
}

func TestMain(m *testing.M) {
	boot.Init("")
	tc = faketc.New("")
	sess = tc.Open()
	if !tc.WaitRegistered(sess, 5*time.Second) {
		panic("no TM registration")
	}
	for _, n := range []string{"c05-a", "c05-b", "c05-c"} {
		a := &action{name: n}
		p, err := tcc.NewTCCServiceProxy(a)
		if err != nil {
			panic(err)
		}
		actions = append(actions, a)
		proxies = append(proxies, p)
	}
	ctx.Rec.SetRule("generator: 1–3 Prepare calls inside one global transaction over three registered recording actions; parameter from ten hand-written shapes (tagged / untagged / '-' or empty tag / unexported field / nested struct, slice, map / pointer / embedded BusinessActionContext / *BusinessActionContext field / map / string) or a reflect.StructOf type with generated field kinds and tags (incl. duplicate keys, non-ASCII keys), hostile values (2^53±1, int64 extremes, quotes, NUL); registration reaction {ok, failure result, transport error}; try outcome; then 0–4 phase-two requests {commit, rollback} × registered branch × resource {real, unknown} × application data {echoed, empty, malformed JSON, non-object actionContext} × user-method outcome. Oracle: journal invariants of the statement (one register per Prepare with type TCC / resource = action name / actionContext = exactly the tagged exported fields + bookkeeping keys, reply before try, no try after failed register; per phase-two request exactly one invocation of the right method of the right action with same xid/branch id and JSON-equal context; success status iff method returned nil; unknown resource runs no user code). Non-trivial: ≥1 tagged field and ≥1 phase-two delivery. Distinct by (shapes, reactions, phase-two sequence).")
	ctx.Rec.Assume("a coordinator echoes application data it was given (other data classes get the weak oracle: no fabricated success)", "on a user-method error both 'retryable failure response' and 'no response' are accepted (DESIGN §5 C05)", "a Prepare that panics before registering (nil / non-struct pointer parameters) is recorded, not judged: the statement does not speak about it")
	ctx.RunWitnesses(func(f stats.Finding) *pt.Failure {
		var c Case
		if err := json.Unmarshal(f.Witness, &c); err != nil {
			return nil
		}
		return runCase(c)
	})
	ctx.Main(m)
}

func TestPropTCC(t *testing.T) {
	ctx.Check(t, func(rt *rapid.T) {
		c := drawCase(rt)
		record("tcc", c)
		ctx.Judge(rt, "tcc", runCase(c), c)
	})
}

func TestPropReplaySaved(t *testing.T) {
	ctx.ReplayAll(t, func(v *stats.Violation) *pt.Failure {
		var c Case
		if err := json.Unmarshal(v.Case, &c); err != nil {
			return pt.Failf("C05/replay", "bad case: %v", err)
		}
		return runCase(c)
	})
}

func TestReplay(t *testing.T) {
	var c Case
	v, ok := pt.Replay(t, &c)
	if !ok {
		t.Skip("no VERIF_REPLAY_FILE")
	}
	defer ctx.Rec.Flush()
	record("replay", c)
	ctx.Judge(t, v.Test, runCase(c), c)
}
