// C10 — branch rollback is idempotent and blocks a late phase one.
package c10

import (
	"context"
	"encoding/json"
	"errors"
	"fmt"
	"os"
	"sort"
	"strings"
	"sync"
	"testing"
	"time"

	"pgregory.net/rapid"

	"seata.apache.org/seata-go/pkg/protocol/branch"
	"seata.apache.org/seata-go/pkg/protocol/message"

	"verifharness/atenv"
	"verifharness/faketc"
	"verifharness/gen"
	"verifharness/memsql"
	"verifharness/pt"
	"verifharness/stats"
)

var (
	ctx = pt.New("C10")
	env *atenv.Env
)

type Case struct {
	Kind   string          `json:"kind"` // faults | repeat | early
	Tables []gen.TableSpec `json:"tables"`
	Branch gen.Branch      `json:"branch"`
	Config gen.Config      `json:"config"`
	// faults: DropConn selects a lost connection instead of a statement error
	DropConn bool `json:"drop_conn,omitempty"`
	// InRows: a query hit by the fault runs and fails while its rows are streamed (after AfterRows rows)
	InRows    bool `json:"in_rows,omitempty"`
	AfterRows int  `json:"after_rows,omitempty"`
	// repeat: number of deliveries
	Deliveries int `json:"deliveries,omitempty"`
	// early: where the rollback is delivered relative to phase one
	Point string `json:"point,omitempty"` // before-register-reply | before-undo-insert | before-commit | after-commit
}

var errBusiness = errors.New("business decides to roll back")

func texts(names []string, br gen.Branch) []atenv.StmtText {
	var out []atenv.StmtText
	for _, s := range br.Stmts {
		out = append(out, atenv.StmtText{SQL: s.Text(names), Args: s.GoArgs()})
	}
	return out
}

func setup(c Case) ([]string, *pt.Failure) {
	n := atenv.NextCase()
	var names []string
	for i, tb := range c.Tables {
		name := atenv.TableName(n, i)
		names = append(names, name)
		if _, err := env.Bare.Exec(tb.DDL(name)); err != nil {
			return names, pt.Failf("C10/harness/setup", "%v", err)
		}
		if q := tb.InsertRows(name); q != "" {
			if _, err := env.Bare.Exec(q); err != nil {
				return names, pt.Failf("C10/harness/setup", "%v: %s", err, q)
			}
		}
		for _, q := range tb.BigInserts(name) {
			if _, err := env.Bare.Exec(q); err != nil {
				return names, pt.Failf("C10/harness/setup", "bulk rows: %v", err)
			}
		}
	}
	return names, nil
}

func undoSnapshot(xid string) []string {
	var out []string
	for _, r := range env.UndoRows(xid) {
		out = append(out, fmt.Sprintf("branch=%v status=%v info=%x", r["branch_id"], r["log_status"], r["rollback_info"]))
	}
	sort.Strings(out)
	return out
}

func normalUndoRows(xid string) int {
	n := 0
	for _, r := range env.UndoRows(xid) {
		if st, _ := r["log_status"].(int64); st == 0 {
			n++
		}
	}
	return n
}

// phaseOne runs the branch inside a global transaction whose callback fails afterwards.
func phaseOne(c Case, names []string) (xid string, res atenv.BranchResult, br *faketc.Branch) {
	xid, _ = atenv.Global("c10", func(cx context.Context) error {
		res = atenv.RunBranch(cx, env.AT, c.Branch.Mode, c.Branch.Via, false, texts(names, c.Branch))
		return errBusiness
	})
	if bs := env.TC.Branches(); len(bs) == 1 {
		br = bs[0]
	}
	return
}

type obs struct {
	positions int
	reached   int
	changed   bool
	detail    string
}

var last obs

func runCase(c Case) *pt.Failure {
	return pt.Guard("C10/crash", func() *pt.Failure {
		last = obs{}
		switch c.Kind {
		case "faults":
			return runFaults(c)
		case "repeat":
			return runRepeat(c)
		case "early":
			return runEarly(c)
		}
		return pt.Failf("C10/harness", "kind %q", c.Kind)
	})
}

func prepare(c Case) {
	env.ResetCase()
	env.CleanUndo()
	atenv.UndoConfig(c.Config.Serializer, c.Config.Compress, c.Config.Validation, c.Config.OnlyUpdate)
}

// rollbackWait: thousands of compensating statements take their time.
func rollbackWait(c Case) time.Duration {
	if len(c.Tables) > 0 && c.Tables[0].BigRows > 0 {
		return 120 * time.Second
	}
	return 5 * time.Second
}

func wroteSomething(names []string) bool {
	for _, e := range env.Srv.Journal() {
		if (e.Kind == "E" || e.Kind == "PE") && len(e.Writes) > 0 && !strings.Contains(strings.ToLower(e.Query), "undo_log") {
			return true
		}
	}
	return false
}

// runFaults: a database failure at every statement index of the rollback transaction, each followed by a clean retry.
func runFaults(c Case) *pt.Failure {
	for k := 1; k < 40; k++ {
		prepare(c)
		names, fl := setup(c)
		if fl != nil {
			return fl
		}
		d0 := env.Srv.Snapshot(atenv.Schema, names...)
		env.Srv.ResetJournal()
		xid, res, br := phaseOne(c, names)
		if res.Failed() || br == nil || !wroteSomething(names) {
			env.DropTables(names)
			return nil // nothing committed: not this property's subject
		}
		last.changed = true
		before := env.Srv.Snapshot(atenv.Schema, names...)
		undoBefore := undoSnapshot(xid)
		mark := jmark()
		count := 0
		f := &memsql.Fault{DropConn: c.DropConn, InRows: c.InRows, AfterRows: c.AfterRows, Match: func(e *memsql.Entry) bool {
			if e.Seq <= mark || e.Kind == "CONNECT" || e.Kind == "CLOSE" || strings.Contains(e.Upper(), "INFORMATION_SCHEMA") {
				return false
			}
			count++
			return count == k
		}}
		env.Srv.AddFault(f)
		st, resp := env.TC.BranchRollback(env.Sess, br, rollbackWait(c))
		env.Srv.ClearFaults()
		if f.Fired() == 0 {
			// k is beyond the last statement of the rollback transaction: the fault-free run
			env.DropTables(names)
			last.positions = k - 1
			if resp == nil || st != branch.BranchStatusPhasetwoRollbacked {
				return pt.Failf("C10/fault-free-rollback-refused", "fault-free rollback answered %v", st)
			}
			return nil
		}
		last.reached++
		where := fmt.Sprintf("fault at statement %d of the rollback transaction (drop connection: %v, while streaming rows: %v after %d)\n%s", k, c.DropConn, c.InRows, c.AfterRows, atenv.Tail(env.Srv.JournalSince(mark), 14))
		if resp != nil && st == branch.BranchStatusPhasetwoRollbacked {
			// the database refused a statement of the rollback; success may only be claimed if the rollback really happened
			if d := atenv.DiffSnap(d0, env.Srv.Snapshot(atenv.Schema, names...)); d != "" || normalUndoRows(xid) != 0 {
				env.DropTables(names)
				return pt.Failf("C10/rollbacked-despite-failure", "answered Rollbacked although the database failed and the rows are not restored:%s\n%s", d, where)
			}
		} else {
			if d := atenv.DiffSnap(before, env.Srv.Snapshot(atenv.Schema, names...)); d != "" {
				env.DropTables(names)
				return pt.Failf("C10/partial-compensation", "failed attempt left changes behind:%s\n%s", d, where)
			}
			if a := undoSnapshot(xid); strings.Join(a, ";") != strings.Join(undoBefore, ";") {
				env.DropTables(names)
				return pt.Failf("C10/undo-log-changed-by-failed-attempt", "undo log changed by a failed attempt: %v -> %v\n%s", undoBefore, a, where)
			}
		}
		if _, open, _ := env.Srv.Stats(); open != 0 {
			ids := env.Srv.OpenTxConns()
			env.DropTables(names)
			return pt.Failf("C10/transaction-left-open", "failed attempt left an engine transaction open on connections %v\n%s", ids, where)
		}
		// clean retry
		st, resp = env.TC.BranchRollback(env.Sess, br, rollbackWait(c))
		if resp == nil || st != branch.BranchStatusPhasetwoRollbacked {
			env.DropTables(names)
			return pt.Failf("C10/retry-refused", "clean retry after a failed attempt answered %v (response %v)\n%s\nretry:\n%s", st, resp != nil, where, atenv.Tail(env.Srv.Journal(), 8))
		}
		if d := atenv.DiffSnap(d0, env.Srv.Snapshot(atenv.Schema, names...)); d != "" {
			env.DropTables(names)
			return pt.Failf("C10/retry-not-restored", "after the retry the tables differ from before the global transaction:%s\n%s", d, where)
		}
		if n := normalUndoRows(xid); n != 0 {
			env.DropTables(names)
			return pt.Failf("C10/undo-log-left", "%d undo rows left after the retry", n)
		}
		env.DropTables(names)
	}
	return nil
}

func jmark() int64 {
	if j := env.Srv.Journal(); len(j) > 0 {
		return j[len(j)-1].Seq
	}
	return 0
}

// runRepeat: 1–3 deliveries of the same rollback.
func runRepeat(c Case) *pt.Failure {
	prepare(c)
	names, fl := setup(c)
	if fl != nil {
		return fl
	}
	defer env.DropTables(names)
	d0 := env.Srv.Snapshot(atenv.Schema, names...)
	env.Srv.ResetJournal()
	xid, res, br := phaseOne(c, names)
	if res.Failed() || br == nil {
		return nil
	}
	last.changed = wroteSomething(names)
	for i := 0; i < c.Deliveries; i++ {
		st, resp := env.TC.BranchRollback(env.Sess, br, rollbackWait(c))
		if resp == nil || st != branch.BranchStatusPhasetwoRollbacked {
			return pt.Failf("C10/repeat-refused", "delivery %d of %d answered %v (response %v)\n%s", i+1, c.Deliveries, st, resp != nil, atenv.Tail(env.Srv.Journal(), 10))
		}
		if d := atenv.DiffSnap(d0, env.Srv.Snapshot(atenv.Schema, names...)); d != "" {
			return pt.Failf("C10/repeat-not-restored", "after delivery %d the tables differ from before the global transaction:%s", i+1, d)
		}
		if n := normalUndoRows(xid); n != 0 {
			return pt.Failf("C10/undo-log-left", "%d normal undo rows after delivery %d", n, i+1)
		}
	}
	if _, open, _ := env.Srv.Stats(); open != 0 {
		return pt.Failf("C10/transaction-left-open", "engine transaction left open on %v", env.Srv.OpenTxConns())
	}
	last.reached = c.Deliveries
	return nil
}

// runEarly: the rollback overtakes phase one at a chosen point.
func runEarly(c Case) *pt.Failure {
	prepare(c)
	names, fl := setup(c)
	if fl != nil {
		return fl
	}
	defer env.DropTables(names)
	defer env.Srv.ClearFaults()
	d0 := env.Srv.Snapshot(atenv.Schema, names...)
	env.Srv.ResetJournal()
	var (
		mu        sync.Mutex
		earlySt   branch.BranchStatus
		earlyResp *message.BranchRollbackResponse
		delivered bool
	)
	deliver := func() {
		bs := env.TC.Branches()
		if len(bs) != 1 {
			return
		}
		// the coordinator may deliver the request more than once at that point (early kind: Deliveries)
		n := c.Deliveries
		if n < 1 {
			n = 1
		}
		for i := 0; i < n; i++ {
			st, resp := env.TC.BranchRollback(env.Sess, bs[0], 5*time.Second)
			mu.Lock()
			if i == 0 || !(earlyResp != nil && earlySt == branch.BranchStatusPhasetwoRollbacked) {
				earlySt, earlyResp = st, resp
			}
			delivered = true
			mu.Unlock()
		}
	}
	release := make(chan struct{})
	hit := make(chan memsql.Entry, 1)
	switch c.Point {
	case "before-register-reply":
		env.TC.Script(message.MessageTypeBranchRegister, faketc.Action{Before: func(message.RpcMessage) { deliver() }})
	case "before-undo-insert":
		env.Srv.AddPause(&memsql.Pause{Once: true, Hit: hit, Release: release, Match: func(e *memsql.Entry) bool {
			return strings.HasPrefix(e.Upper(), "INSERT INTO UNDO_LOG")
		}})
	case "before-commit":
		sawUndo := false
		env.Srv.AddPause(&memsql.Pause{Once: true, Hit: hit, Release: release, Match: func(e *memsql.Entry) bool {
			if strings.HasPrefix(e.Upper(), "INSERT INTO UNDO_LOG") {
				sawUndo = true
			}
			return sawUndo && e.Kind == "COMMIT"
		}})
	}
	if c.Point == "before-undo-insert" || c.Point == "before-commit" {
		go func() {
			select {
			case <-hit:
				deliver()
			case <-time.After(3 * time.Second):
			}
			close(release)
		}()
	}
	xid, res, br := phaseOne(c, names)
	if c.Point == "before-undo-insert" || c.Point == "before-commit" {
		select {
		case <-release:
		case <-time.After(5 * time.Second):
		}
	}
	mu.Lock()
	wasDelivered, st, resp := delivered, earlySt, earlyResp
	mu.Unlock()
	if br == nil {
		return nil // the statement never got as far as registering a branch
	}
	last.changed = true
	info := fmt.Sprintf("point=%s early delivery answered %v (response %v); phase one result: %+v\n%s", c.Point, st, resp != nil, res, atenv.Tail(env.Srv.Journal(), 24))
	rolledBackEarly := wasDelivered && resp != nil && st == branch.BranchStatusPhasetwoRollbacked
	if rolledBackEarly {
		last.reached = 1
		// the coordinator now considers the branch rolled back: phase one must not commit anything
		if !res.Failed() && wroteSomething(names) {
			return pt.Failf("C10/late-phase-one-committed/"+c.Point, "the branch was answered Rollbacked before its local commit, but the local commit succeeded\n%s", info)
		}
		if d := atenv.DiffSnap(d0, env.Srv.Snapshot(atenv.Schema, names...)); d != "" {
			return pt.Failf("C10/late-phase-one-committed/"+c.Point, "the branch was answered Rollbacked before its local commit, but business rows were committed:%s\n%s", d, info)
		}
		if n := normalUndoRows(xid); n != 0 {
			return pt.Failf("C10/undo-log-left", "%d normal undo rows left\n%s", n, info)
		}
	} else {
		// not (successfully) rolled back early: the ordinary rollback after phase one must work
		if res.Failed() {
			if d := atenv.DiffSnap(d0, env.Srv.Snapshot(atenv.Schema, names...)); d != "" {
				return pt.Failf("C10/failed-phase-one-committed/"+c.Point, "phase one reported an error but rows changed:%s\n%s", d, info)
			}
		} else {
			st2, resp2 := env.TC.BranchRollback(env.Sess, br, 5*time.Second)
			if resp2 == nil || st2 != branch.BranchStatusPhasetwoRollbacked {
				return pt.Failf("C10/rollback-after-commit-refused/"+c.Point, "rollback after the local commit answered %v (response %v)\n%s", st2, resp2 != nil, info)
			}
			if d := atenv.DiffSnap(d0, env.Srv.Snapshot(atenv.Schema, names...)); d != "" {
				return pt.Failf("C10/not-restored/"+c.Point, "tables differ after the rollback:%s\n%s", d, info)
			}
		}
	}
	if _, open, _ := env.Srv.Stats(); open != 0 {
		return pt.Failf("C10/transaction-left-open", "engine transaction left open on %v\n%s", env.Srv.OpenTxConns(), info)
	}
	return nil
}

func stmtOptions() gen.StmtOptions {
	return gen.StmtOptions{ForceParamStrings: true, NoKeyAssignment: true, NoNullAutoKey: true, NoUpsertOnUnique: true}
}

func drawBase(rt *rapid.T) Case {
	tables := []gen.TableSpec{gen.DrawTable(rt, 0)}
	br := gen.Branch{Mode: rapid.SampledFrom([]string{"auto", "auto", "tx"}).Draw(rt, "mode"), Via: rapid.SampledFrom([]string{"db", "conn"}).Draw(rt, "via")}
	ns := 1
	if br.Mode == "tx" {
		ns = rapid.IntRange(1, 2).Draw(rt, "nStmts")
	}
	for i := 0; i < ns; i++ {
		br.Stmts = append(br.Stmts, gen.DrawStmt(rt, tables, stmtOptions()))
	}
	return Case{Tables: tables, Branch: br, Config: gen.Config{Serializer: "json", Compress: rapid.SampledFrom([]string{"None", "None", "Gzip", "Lz4"}).Draw(rt, "compress"),
		Validation: rapid.Bool().Draw(rt, "validation"), OnlyUpdate: rapid.Bool().Draw(rt, "onlyUpdate")}}
}

func shape(c Case) string {
	var ks []string
	for _, s := range c.Branch.Stmts {
		ks = append(ks, s.Kind+"/"+s.Where)
	}
	return c.Branch.Mode + ":" + strings.Join(ks, "+")
}

func record(test string, c Case) {
	labels := []string{"kind:" + c.Kind, "mode:" + c.Branch.Mode}
	for _, s := range c.Branch.Stmts {
		labels = append(labels, "stmt:"+s.Kind)
	}
	canon := shape(c)
	switch c.Kind {
	case "faults":
		labels = append(labels, fmt.Sprintf("drop-conn:%v", c.DropConn), fmt.Sprintf("in-rows:%v", c.InRows))
		ctx.Rec.Label("fault-positions-reached", last.reached)
		canon += fmt.Sprintf("|faults|%v|%v%d|%d", c.DropConn, c.InRows, c.AfterRows, last.reached)
	case "repeat":
		labels = append(labels, fmt.Sprintf("deliveries:%d", c.Deliveries))
		canon += fmt.Sprintf("|repeat|%d", c.Deliveries)
	case "early":
		labels = append(labels, "point:"+c.Point, fmt.Sprintf("rolled-back-early:%v", last.reached == 1))
		canon += "|early|" + c.Point + fmt.Sprint(c.Deliveries)
	}
	ctx.Rec.Case(test, last.changed && (last.reached > 0 || c.Kind == "early"), canon, c, labels...)
}

func TestMain(m *testing.M) {
	env = atenv.Get(atenv.Options{})
	env.Srv.SetLockWait(150 * time.Millisecond)
	ctx.Rec.SetRule("generator: one AT branch (autocommit statement or explicit transaction of 1–2 statements, db or pinned Conn) from the shared grammar, committed inside a failing global transaction; then (a) for k = 1,2,…: the scenario is rebuilt, a database error (or a dropped connection) is injected at the k-th statement of the rollback transaction (BEGIN, undo-log SELECT FOR UPDATE, validation SELECT, compensation statements, undo-log DELETE, COMMIT) until k exceeds the transaction, each followed by a clean retry; (b) 1–3 repeated deliveries; (c) the rollback is delivered before the BranchRegister reply, between that reply and the undo_log insert, between the insert and COMMIT (pause points of the engine), or after COMMIT. Oracle: a failed attempt changes neither business tables nor undo log and leaves no engine transaction open, never answers Rollbacked unless restored; the retry / every repeated delivery answers Rollbacked with tables == snapshot before the global transaction and no normal undo row; a rollback answered before the local commit makes that commit fail with nothing committed. Non-trivial: a fault position that was reached / an early delivery. Distinct by (program shape, fault kind and positions, delivery point).")
	ctx.Rec.Assume("crash points are modelled as statement errors and dropped connections, not process death", "memsql lock wait timeout 150 ms stands for MySQL's innodb_lock_wait_timeout")
	ctx.RunWitnesses(func(f stats.Finding) *pt.Failure {
		var c Case
		if err := json.Unmarshal(f.Witness, &c); err != nil {
			return nil
		}
		return runCase(c)
	})
	ctx.Main(m)
}

func TestPropFaultEveryPosition(t *testing.T) {
	ctx.Check(t, func(rt *rapid.T) {
		c := drawBase(rt)
		c.Kind, c.DropConn = "faults", rapid.IntRange(0, 3).Draw(rt, "drop") == 0
		if !c.DropConn && rapid.IntRange(0, 2).Draw(rt, "inRows") == 0 {
			c.InRows, c.AfterRows = true, rapid.SampledFrom([]int{0, 0, 1}).Draw(rt, "afterRows")
		}
		fl := runCase(c)
		record("faults", c)
		ctx.Judge(rt, "faults", fl, c)
	})
}

var bigDone bool

// bigCase: repeated delivery of the rollback of a statement over a multiple of 1000 rows and over one row more,
// once per process (size by shard number).
func bigCase() Case {
	sh := 0
	if v := os.Getenv("VERIF_SHARD"); v != "" {
		fmt.Sscanf(v, "%d", &sh)
	}
	n := []int{1000, 2000, 1001, 3000}[sh%4]
	kind := []string{"update", "delete"}[(sh/2)%2]
	tb := gen.TableSpec{KeyShape: "int", Cols: []gen.ColSpec{{Name: "id", Type: "INT", Base: "INT"}, {Name: "c0", Type: "INT", Base: "INT", Nullable: true}, {Name: "c1", Type: "VARCHAR(32)", Base: "VARCHAR", Nullable: true}}, PK: []string{"id"},
		Rows: [][]gen.Lit{{{Kind: "int", I: 1}, {Kind: "int", I: 5}, {Kind: "str", S: "a"}}}, BigRows: n}
	tables := []gen.TableSpec{tb}
	return Case{Kind: "repeat", Deliveries: 2, Tables: tables, Branch: gen.Branch{Mode: "auto", Via: "db", Stmts: []gen.Stmt{gen.BigStmt(nil, tables, 0, kind, n)}},
		Config: gen.Config{Serializer: "json", Compress: "None", Validation: true, OnlyUpdate: sh%2 == 0}}
}

func TestPropRepeatedDelivery(t *testing.T) {
	if !bigDone {
		bigDone = true
		c := bigCase()
		fl := runCase(c)
		record("repeat", c)
		ctx.Judge(t, "repeat", fl, c)
	}
	ctx.Check(t, func(rt *rapid.T) {
		c := drawBase(rt)
		c.Kind, c.Deliveries = "repeat", rapid.IntRange(1, 3).Draw(rt, "deliveries")
		fl := runCase(c)
		record("repeat", c)
		ctx.Judge(rt, "repeat", fl, c)
	})
}

func TestPropEarlyRollback(t *testing.T) {
	ctx.Check(t, func(rt *rapid.T) {
		c := drawBase(rt)
		c.Kind, c.Point = "early", rapid.SampledFrom([]string{"before-register-reply", "before-undo-insert", "before-commit", "after-commit"}).Draw(rt, "point")
		c.Deliveries = rapid.SampledFrom([]int{1, 1, 2, 2, 3}).Draw(rt, "deliveries")
		fl := runCase(c)
		record("early", c)
		ctx.Judge(rt, "early", fl, c)
	})
}

func TestPropReplaySaved(t *testing.T) {
	ctx.ReplayAll(t, func(v *stats.Violation) *pt.Failure {
		var c Case
		if err := json.Unmarshal(v.Case, &c); err != nil {
			return pt.Failf("C10/replay", "bad case: %v", err)
		}
		return runCase(c)
	})
}

func TestReplay(t *testing.T) {
	var c Case
	v, ok := pt.Replay(t, &c)
	if !ok {
		t.Skip("no VERIF_REPLAY_FILE")
	}
	defer ctx.Rec.Flush()
	fl := runCase(c)
	record("replay", c)
	ctx.Judge(t, v.Test, fl, c)
}
