// C18 — captured images equal the rows the statement actually changed.
package c18

import (
	"context"
	"encoding/base64"
	"encoding/json"
	"fmt"
	"sort"
	"strings"
	"testing"
	"time"

	"pgregory.net/rapid"

	"verifharness/atenv"
	"verifharness/gen"
	"verifharness/memsql"
	"verifharness/pt"
	"verifharness/stats"
)

var (
	ctx = pt.New("C18")
	env *atenv.Env
)

type Case struct {
	Tables     []gen.TableSpec `json:"tables"`
	Stmt       gen.Stmt        `json:"stmt"`
	OnlyUpdate bool            `json:"only_care_update_columns"`
	Via        string          `json:"via"`
	AutoStep   int64           `json:"auto_increment_increment,omitempty"` // the server's key step (0 = 1); it differs between cases of one process
	BufReuse   bool            `json:"buffer_reuse"` // the engine hands out []byte cells that are only valid until the next row
	// Prelude: the statement runs inside an explicit local transaction after this statement, which the database
	// rejects (duplicate key) and whose error the caller ignores: the rejected statement records nothing
	Prelude *gen.Stmt `json:"prelude,omitempty"`
}

// ---- our own reader of rollback_info (JSON serializer, no compression) ---------------------------

type jField struct {
	KeyType string      `json:"keyType"`
	Name    string      `json:"name"`
	Type    int         `json:"type"`
	Value   interface{} `json:"value"`
}
type jRow struct {
	Fields []jField `json:"fields"`
}
type jImage struct {
	TableName string `json:"tableName"`
	Rows      []jRow `json:"rows"`
}
type jLog struct {
	SQLType     interface{} `json:"sqlType"`
	TableName   string      `json:"tableName"`
	BeforeImage *jImage     `json:"beforeImage"`
	AfterImage  *jImage     `json:"afterImage"`
}
type jUndo struct {
	Xid      string `json:"xid"`
	BranchID uint64 `json:"branchId"`
	Logs     []jLog `json:"sqlUndoLogs"`
}

// normalise renders a JSON scalar of the undo log as the engine value it denotes for a column.
func normalise(col gen.ColSpec, v interface{}) string {
	if v == nil {
		return "NULL"
	}
	switch col.Base {
	case "INT", "BIGINT", "TINYINT", "SMALLINT":
		if n, ok := v.(json.Number); ok {
			if i, err := n.Int64(); err == nil {
				return fmt.Sprintf("i:%d", i)
			}
			return "num:" + n.String()
		}
	case "FLOAT":
		// a FLOAT column holds a float32: values are the same when they are the same float32
		if n, ok := v.(json.Number); ok {
			f, _ := n.Float64()
			return fmt.Sprintf("f32:%v", float32(f))
		}
	case "DECIMAL", "DOUBLE":
		if n, ok := v.(json.Number); ok {
			f, _ := n.Float64()
			return fmt.Sprintf("f:%v", f)
		}
	case "DATETIME", "DATE":
		if s, ok := v.(string); ok {
			if t, err := time.Parse(time.RFC3339Nano, s); err == nil {
				return "t:" + t.UTC().Format(time.RFC3339Nano)
			}
			return "time?:" + s
		}
	case "VARBINARY", "BLOB":
		if s, ok := v.(string); ok {
			if b, err := base64.StdEncoding.DecodeString(s); err == nil {
				return fmt.Sprintf("b:%x", b)
			}
			return "bytes?:" + s
		}
	default:
		if s, ok := v.(string); ok {
			if b, err := base64.StdEncoding.DecodeString(s); err == nil {
				return fmt.Sprintf("s:%q", string(b))
			}
			return fmt.Sprintf("s:%q", s)
		}
	}
	return fmt.Sprintf("?:%v", v)
}

func colOf(tb gen.TableSpec, name string) (gen.ColSpec, bool) {
	for _, c := range tb.Cols {
		if strings.EqualFold(c.Name, name) {
			return c, true
		}
	}
	return gen.ColSpec{}, false
}

func keyOfImage(tb gen.TableSpec, r jRow) string {
	var ks []string
	for _, p := range tb.PK {
		for _, f := range r.Fields {
			if strings.EqualFold(f.Name, p) {
				col, _ := colOf(tb, p)
				k := normalise(col, f.Value)
				if strings.HasPrefix(k, "s:") {
					k = strings.ToLower(k)
				}
				ks = append(ks, k)
				break
			}
		}
	}
	return strings.Join(ks, "|")
}

func keyOfRow(tb gen.TableSpec, m map[string]memsql.Value) string {
	var ks []string
	for _, p := range tb.PK {
		v := m[p]
		if s, ok := v.(string); ok {
			v = strings.ToLower(s)
		}
		ks = append(ks, memsql.RenderValue(v))
	}
	return strings.Join(ks, "|")
}

type obs struct {
	changed, matched, imaged int
	rejected                 bool
	err                      string
}

var last obs

func runCase(c Case) *pt.Failure {
	return pt.Guard("C18/crash", func() *pt.Failure { return execute(c) })
}

// matchedKeys runs the statement's WHERE (with its ORDER BY / LIMIT) as a SELECT through the bare driver.
func matchedKeys(c Case, names []string, tb gen.TableSpec) (map[string]bool, bool) {
	sqlText := c.Stmt.Text(names)
	i := strings.Index(sqlText, " WHERE ")
	if i < 0 {
		return nil, false
	}
	nPrefix := strings.Count(sqlText[:i], "?")
	args := c.Stmt.GoArgs()
	if nPrefix > len(args) {
		return nil, false
	}
	rows, err := env.Bare.Query("SELECT * FROM "+names[c.Stmt.Table]+sqlText[i:], args[nPrefix:]...)
	if err != nil {
		return nil, false
	}
	defer rows.Close()
	cols, _ := rows.Columns()
	out := map[string]bool{}
	for rows.Next() {
		vals := make([]interface{}, len(cols))
		ptrs := make([]interface{}, len(cols))
		for k := range vals {
			ptrs[k] = &vals[k]
		}
		if rows.Scan(ptrs...) != nil {
			return nil, false
		}
		m := map[string]memsql.Value{}
		for k, n := range cols {
			v := vals[k]
			if b, ok := v.([]byte); ok {
				col, _ := colOf(tb, n)
				switch col.Base {
				case "INT", "BIGINT", "TINYINT", "SMALLINT":
					var x int64
					fmt.Sscan(string(b), &x)
					v = x
				case "VARBINARY", "BLOB":
				default:
					v = string(b)
				}
			}
			m[n] = v
		}
		out[keyOfRow(tb, m)] = true
	}
	return out, true
}

func execute(c Case) *pt.Failure {
	last = obs{}
	env.ResetCase()
	env.CleanUndo()
	atenv.UndoConfig("json", "None", true, c.OnlyUpdate)
	env.Srv.SetBufferReuse(c.BufReuse)
	env.Srv.SetAutoIncStep(c.AutoStep)
	defer env.Srv.SetAutoIncStep(1)
	defer env.Srv.SetBufferReuse(false)
	n := atenv.NextCase()
	var names []string
	for i, tb := range c.Tables {
		name := atenv.TableName(n, i)
		names = append(names, name)
		if _, err := env.Bare.Exec(tb.DDL(name)); err != nil {
			return pt.Failf("C18/harness/setup", "%v", err)
		}
		if q := tb.InsertRows(name); q != "" {
			if _, err := env.Bare.Exec(q); err != nil {
				return pt.Failf("C18/harness/setup", "%v: %s", err, q)
			}
		}
	}
	defer env.DropTables(names)
	tb := c.Tables[c.Stmt.Table]
	kind := c.Stmt.Kind
	var matched map[string]bool
	haveMatched := false
	if kind == "update" || kind == "delete" {
		matched, haveMatched = matchedKeys(c, names, tb)
	}
	env.Srv.ResetJournal()
	var res atenv.BranchResult
	preludeErr := ""
	xid, _ := atenv.Global("c18", func(cx context.Context) error {
		if c.Prelude != nil {
			res = atenv.RunBranchOpt(cx, env.AT, atenv.BranchOpts{Mode: "tx", Via: c.Via, KeepGoing: true}, []atenv.StmtText{{SQL: c.Prelude.Text(names), Args: c.Prelude.GoArgs()}, {SQL: c.Stmt.Text(names), Args: c.Stmt.GoArgs()}})
			if len(res.Stmts) == 2 {
				preludeErr = res.Stmts[0].Err
				res.Stmts = res.Stmts[1:]
			}
			return nil
		}
		res = atenv.RunBranch(cx, env.AT, "auto", c.Via, false, []atenv.StmtText{{SQL: c.Stmt.Text(names), Args: c.Stmt.GoArgs()}})
		return nil
	})
	if c.Prelude != nil && preludeErr == "" {
		return nil // the prelude was not rejected (the statement under test is not reached as intended): not judged
	}
	// engine ground truth
	var writes []memsql.Write
	for _, e := range env.Srv.Journal() {
		if (e.Kind == "E" || e.Kind == "PE") && e.Err == "" && !strings.Contains(strings.ToLower(e.Query), "undo_log") {
			writes = append(writes, e.Writes...)
		}
	}
	last.changed = len(writes)
	last.matched = len(matched)
	feature := kind
	if c.Stmt.HasClass("key-assignment") {
		feature += "/key-assignment"
	}
	if c.Stmt.HasClass("multi-row") {
		feature += "/multi-row"
	}
	info := func() string {
		return fmt.Sprintf("statement: %s %v (only-care-update-columns=%v, via %s, buffer reuse %v, after a rejected statement in the same transaction: %v)\ncaller saw: %+v\n%s", c.Stmt.Text(names), c.Stmt.GoArgs(), c.OnlyUpdate, c.Via, c.BufReuse, c.Prelude != nil, res, atenv.Tail(env.Srv.Journal(), 10))
	}
	if res.Failed() {
		last.rejected, last.err = true, res.FirstErr()
		// rejected statements must not have changed anything
		if len(writes) > 0 {
			after := env.Srv.Rows(atenv.Schema, names[c.Stmt.Table])
			_ = after
			// the statement failed inside its local transaction, which the proxy rolled back: committed rows must be unchanged (C02 covers that); nothing to judge for images
		}
		return nil
	}
	// the committed branch's undo log
	var undoRow map[string]memsql.Value
	for _, r := range env.UndoRows(xid) {
		if st, _ := r["log_status"].(int64); st == 0 {
			undoRow = r
		}
	}
	if len(writes) == 0 {
		return nil // nothing changed: an undo log may or may not exist
	}
	if undoRow == nil {
		return pt.Failf("C18/no-undo-log/"+feature, "the statement changed %d rows but no undo log was recorded\n%s", len(writes), info())
	}
	raw, _ := undoRow["rollback_info"].([]byte)
	dec := json.NewDecoder(strings.NewReader(string(raw)))
	dec.UseNumber()
	var u jUndo
	if err := dec.Decode(&u); err != nil {
		return pt.Failf("C18/undo-log-unreadable", "rollback_info is not the documented JSON: %v\n%.300s", err, raw)
	}
	if len(u.Logs) != 1 {
		return pt.Failf("C18/undo-log-count/"+feature, "%d SQL undo logs for one statement\n%s", len(u.Logs), info())
	}
	lg := u.Logs[0]
	// expected columns per imaged row
	expectCols := map[string]bool{}
	switch {
	case c.OnlyUpdate && kind == "update":
		for _, s := range c.Stmt.SetCols {
			expectCols[strings.ToLower(s)] = true
		}
		for _, p := range tb.PK {
			expectCols[strings.ToLower(p)] = true
		}
	case c.OnlyUpdate && kind == "insert" && len(c.Stmt.InsCols) > 0:
		for _, s := range c.Stmt.InsCols {
			expectCols[strings.ToLower(s)] = true
		}
		for _, p := range tb.PK {
			expectCols[strings.ToLower(p)] = true
		}
	default:
		for _, col := range tb.Cols {
			expectCols[strings.ToLower(col.Name)] = true
		}
	}
	beforeTruth, afterTruth := map[string]map[string]memsql.Value{}, map[string]map[string]memsql.Value{}
	for _, w := range writes {
		if w.Before != nil {
			beforeTruth[keyOfRow(tb, w.Before)] = w.Before
		}
		if w.After != nil {
			afterTruth[keyOfRow(tb, w.After)] = w.After
		}
	}
	checkImage := func(side string, img *jImage, truth map[string]map[string]memsql.Value, mustCover bool) *pt.Failure {
		seen := map[string]bool{}
		if img != nil {
			for _, r := range img.Rows {
				k := keyOfImage(tb, r)
				if seen[k] {
					return pt.Failf("C18/"+side+"-image/duplicate-row/"+feature, "row %s appears twice in the %s image\n%s", k, side, info())
				}
				seen[k] = true
				last.imaged++
				tr, isChanged := truth[k]
				if !isChanged {
					if side == "before" && haveMatched && matched[k] {
						continue // matched but unchanged row: allowed in the image (changed ⊆ image ⊆ matched)
					}
					if side == "after" && haveMatched && matched[k] {
						continue
					}
					return pt.Failf("C18/"+side+"-image/untouched-row/"+feature, "the %s image contains row %s which the statement neither changed nor matched\n%s", side, k, info())
				}
				got := map[string]bool{}
				for _, f := range r.Fields {
					ln := strings.ToLower(f.Name)
					if got[ln] {
						return pt.Failf("C18/"+side+"-image/duplicate-column/"+feature, "column %s twice in a row of the %s image\n%s", f.Name, side, info())
					}
					got[ln] = true
					col, ok := colOf(tb, f.Name)
					if !ok {
						return pt.Failf("C18/"+side+"-image/unknown-column/"+feature, "unknown column %q in the %s image", f.Name, side)
					}
					if !expectCols[ln] {
						return pt.Failf("C18/"+side+"-image/extra-column/"+feature, "column %s in the %s image is not expected (expected %v)\n%s", f.Name, side, keys(expectCols), info())
					}
					want := memsql.RenderValue(tr[col.Name])
					if f, ok := tr[col.Name].(float64); ok && col.Base == "FLOAT" {
						want = fmt.Sprintf("f32:%v", float32(f))
					}
					if normalise(col, f.Value) != want {
						return pt.Failf("C18/"+side+"-image/value/"+feature+"/"+col.Base, "%s image, row %s, column %s (%s): recorded %s, the database had %s\n%s", side, k, f.Name, col.Type, normalise(col, f.Value), want, info())
					}
				}
				for e := range expectCols {
					if !got[e] {
						return pt.Failf("C18/"+side+"-image/missing-column/"+feature, "column %s missing from a row of the %s image (has %v)\n%s", e, side, keys(got), info())
					}
				}
			}
		}
		if mustCover {
			for k := range truth {
				if !seen[k] {
					return pt.Failf("C18/"+side+"-image/missing-row/"+feature, "row %s was changed by the statement but is not in the %s image (image has %d rows, statement changed %d)\n%s", k, side, len(seen), len(truth), info())
				}
			}
		}
		return nil
	}
	if fl := checkImage("before", lg.BeforeImage, beforeTruth, true); fl != nil {
		return fl
	}
	if fl := checkImage("after", lg.AfterImage, afterTruth, true); fl != nil {
		return fl
	}
	if c.Stmt.HasClass("key-assignment") {
		// the statement changed a primary key and was not rejected: the images above were correct, which is the allowed alternative
		ctx.Rec.Label("key-assignment-recorded-correctly", 1)
	}
	return nil
}

func keys(m map[string]bool) []string {
	var out []string
	for k := range m {
		out = append(out, k)
	}
	sort.Strings(out)
	return out
}

func stmtOptions() gen.StmtOptions {
	o := gen.StmtOptions{ForceParamStrings: true, NoNullAutoKey: true, NoUpsertOnUnique: true, ParamTenths: 5}
	return o
}

func record(test string, c Case) {
	labels := []string{"stmt:" + c.Stmt.Kind, fmt.Sprintf("only-update-cols:%v", c.OnlyUpdate), "via:" + c.Via, fmt.Sprintf("buffer-reuse:%v", c.BufReuse), fmt.Sprintf("auto-step:%d", c.AutoStep)}
	for _, cl := range c.Stmt.Classes {
		labels = append(labels, "class:"+cl)
	}
	labels = append(labels, fmt.Sprintf("after-rejected-statement:%v", c.Prelude != nil))
	switch {
	case last.rejected:
		labels = append(labels, "rejected-or-failed")
	case last.changed == 0:
		labels = append(labels, "rows:0")
	case last.changed == 1:
		labels = append(labels, "rows:1")
	default:
		labels = append(labels, "rows:many")
	}
	pw, pe := c.Stmt.HasClass("param-in-where"), c.Stmt.HasClass("param-in-set-or-values")
	nt := last.changed > 0 && ((pw && pe) || c.Stmt.HasClass("multi-row") || c.Stmt.Kind == "upsert")
	var types []string
	for _, col := range c.Tables[c.Stmt.Table].Cols {
		types = append(types, col.Base)
	}
	card := last.changed
	if card > 2 {
		card = 2
	}
	ctx.Rec.Case(test, nt, fmt.Sprintf("%s|%s|%v|%s|%d|%v|%s|%v", c.Stmt.Kind, c.Stmt.Where, c.Stmt.Classes, strings.Join(types, ","), card, c.OnlyUpdate, c.Tables[c.Stmt.Table].KeyShape, c.Prelude != nil), c, labels...)
}

func TestMain(m *testing.M) {
	env = atenv.Get(atenv.Options{})
	ctx.Rec.SetRule("generator: one AT statement per transaction (INSERT with 1–3 rows mixing literals, parameters, NULL and DEFAULT, with or without column list, key given or omitted; UPDATE with literal / parameter / arithmetic assignments and, rarely, a key assignment; DELETE; upsert) over the WHERE grammar of C01 (comparison, AND/OR, IN, BETWEEN, parentheses, LIKE, IS NULL, ORDER BY/LIMIT, parameters anywhere), schemas as in C01, both settings of only-care-update-columns, db or pinned Conn, optionally with the engine's buffer-reuse mode ([]byte cells valid only until the next row, like go-sql-driver). Ground truth: the engine's write set of the business statement (before/after row per key) and, for UPDATE/DELETE, the rows matched by the same WHERE through the bare driver. The images are read from undo_log.rollback_info with a JSON reader of our own. Oracle: changed rows ⊆ imaged rows ⊆ matched rows; column set == all columns or assigned+key (listed+key for INSERT with a column list) ; every value equals the engine's content just before / just after; no duplicates; a statement that changes a key is rejected or recorded correctly. Non-trivial: changed rows and (parameters both in WHERE and elsewhere, or a multi-row insert, or an upsert). Distinct by (statement skeleton, WHERE shape, classes, column types, cardinality, flag).")
	ctx.Rec.Assume("JSON serializer, no compression (C08 covers the encodings)", "memsql write sets are the ground truth")
	ctx.RunWitnesses(func(f stats.Finding) *pt.Failure {
		var c Case
		if err := json.Unmarshal(f.Witness, &c); err != nil {
			return nil
		}
		return runCase(c)
	})
	ctx.Main(m)
}

func TestPropImages(t *testing.T) {
	ctx.Check(t, func(rt *rapid.T) {
		tables := []gen.TableSpec{gen.DrawTable(rt, 0)}
		c := Case{Tables: tables, Stmt: gen.DrawStmt(rt, tables, stmtOptions()), OnlyUpdate: rapid.Bool().Draw(rt, "onlyUpdate"),
			Via: rapid.SampledFrom([]string{"db", "conn"}).Draw(rt, "via"), BufReuse: rapid.Bool().Draw(rt, "bufReuse"), AutoStep: rapid.SampledFrom([]int64{0, 0, 1, 2, 5}).Draw(rt, "autoStep")}
		switch rapid.IntRange(0, 7).Draw(rt, "prelude") {
		case 0:
			c.Prelude = gen.DupInsert(rt, tables)
		case 1:
			// an UPDATE that finds its row and is then rejected (NULL for a NOT NULL column)
			if c.Prelude = gen.FailingUpdate(rt, tables); c.Prelude == nil {
				c.Prelude = gen.DupInsert(rt, tables)
			}
		}
		fl := runCase(c)
		record("images", c)
		ctx.Judge(rt, "images", fl, c)
	})
}

func TestPropReplaySaved(t *testing.T) {
	ctx.ReplayAll(t, func(v *stats.Violation) *pt.Failure {
		var c Case
		if err := json.Unmarshal(v.Case, &c); err != nil {
			return pt.Failf("C18/replay", "bad case: %v", err)
		}
		return runCase(c)
	})
}

func TestReplay(t *testing.T) {
	var c Case
	v, ok := pt.Replay(t, &c)
	if !ok {
		t.Skip("no VERIF_REPLAY_FILE")
	}
	defer ctx.Rec.Flush()
	fl := runCase(c)
	record("replay", c)
	ctx.Judge(t, v.Test, fl, c)
}
