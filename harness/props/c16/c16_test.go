// C16 — the proxy driver is transparent apart from its transactional duties (differential).
package c16

import (
	"context"
	"database/sql"
	"encoding/json"
	"fmt"
	"os"
	"regexp"
	"sort"
	"strings"
	"testing"
	"time"

	"pgregory.net/rapid"

	"seata.apache.org/seata-go/pkg/protocol/branch"
	"seata.apache.org/seata-go/pkg/protocol/message"
	"seata.apache.org/seata-go/pkg/tm"

	"verifharness/atenv"
	"verifharness/gen"
	"verifharness/jclock"
	"verifharness/memsql"
	"verifharness/pt"
	"verifharness/stats"
)

var (
	ctx = pt.New("C16")
	env *atenv.Env
	// handles[dsn][driver]
	handles [2]map[string]*sql.DB
)

// Op is one step of a program over the database/sql API.
type Op struct {
	Kind string    `json:"kind"` // exec | query | pexec | pquery | begin | commit | rollback
	SQL  string    `json:"sql,omitempty"`
	Args []gen.Lit `json:"args,omitempty"`
	Reps int       `json:"reps,omitempty"` // executions of a prepared statement
	Note string    `json:"note,omitempty"` // statement class
	// PrepBg: a prepared statement is prepared with context.Background() and executed with the case's context
	PrepBg bool `json:"prep_bg,omitempty"`
}

type Case struct {
	Driver  string          `json:"driver"`  // at | xa
	Context string          `json:"context"` // plain | global | global-then-plain
	Split   int             `json:"split,omitempty"`
	DSN     int             `json:"dsn"` // 0: interpolateParams=true  1: interpolateParams=false, multiStatements=true
	Via     string          `json:"via"` // db | conn
	Tables  []gen.TableSpec `json:"tables"`
	Ops     []Op            `json:"ops"`
	// Lenient: a configuration outside AT's documented domain (global transaction without client-side
	// interpolation): statements may be refused, but nothing may be left open and nothing may panic
	Lenient bool `json:"lenient,omitempty"`
	// PlainCtx: the context the statements outside a global transaction are run with: "" = context.Background(),
	// "seata-no-xid" = a context initialised for seata that carries no xid (NotSupported / Supports scopes),
	// "unbound" = one whose xid was unbound again (a context reused after its global transaction), "xid-copy-only" = one that only remembers an xid copy
	PlainCtx string `json:"plain_ctx,omitempty"`
}

type opResult struct {
	Err      string
	Affected int64
	LastID   int64
	Cols     string
	Rows     []string
}

func (r opResult) String() string {
	if r.Err != "" {
		return "ERR " + r.Err
	}
	if r.Cols != "" || len(r.Rows) > 0 {
		return fmt.Sprintf("cols[%s] rows%v", r.Cols, r.Rows)
	}
	return fmt.Sprintf("affected=%d lastID=%d", r.Affected, r.LastID)
}

type execer interface {
	ExecContext(ctx context.Context, q string, args ...interface{}) (sql.Result, error)
	QueryContext(ctx context.Context, q string, args ...interface{}) (*sql.Rows, error)
	PrepareContext(ctx context.Context, q string) (*sql.Stmt, error)
}

func goArgs(a []gen.Lit) []interface{} {
	var out []interface{}
	for _, l := range a {
		out = append(out, l.Arg())
	}
	return out
}

func readRows(rows *sql.Rows, r *opResult) {
	defer rows.Close()
	cols, _ := rows.Columns()
	r.Cols = strings.Join(cols, ",")
	for rows.Next() {
		vals := make([]interface{}, len(cols))
		ptrs := make([]interface{}, len(cols))
		for i := range vals {
			ptrs[i] = &vals[i]
		}
		if err := rows.Scan(ptrs...); err != nil {
			r.Err = "scan: " + err.Error()
			return
		}
		var cells []string
		for _, v := range vals {
			switch x := v.(type) {
			case []byte:
				cells = append(cells, fmt.Sprintf("[]byte:%q", x))
			case time.Time:
				cells = append(cells, "time:"+x.UTC().Format(time.RFC3339Nano))
			default:
				cells = append(cells, fmt.Sprintf("%T:%v", v, v))
			}
		}
		r.Rows = append(r.Rows, strings.Join(cells, "|"))
	}
	if err := rows.Err(); err != nil {
		r.Err = "rows: " + err.Error()
	}
}

func runOp(cx context.Context, x execer, op Op, names []string) (r opResult) {
	defer func() {
		if p := recover(); p != nil {
			r.Err = fmt.Sprintf("PANIC: %v", p)
			wedged = true // database/sql does not release the connection when a driver call panics in some paths
		}
	}()
	q := op.SQL
	for i, n := range names {
		q = strings.ReplaceAll(q, fmt.Sprintf("{T%d}", i), n)
	}
	args := goArgs(op.Args)
	switch op.Kind {
	case "exec":
		res, err := x.ExecContext(cx, q, args...)
		if err != nil {
			r.Err = err.Error()
			return
		}
		r.Affected, _ = res.RowsAffected()
		r.LastID, _ = res.LastInsertId()
	case "query":
		rows, err := x.QueryContext(cx, q, args...)
		if err != nil {
			r.Err = err.Error()
			return
		}
		readRows(rows, &r)
	case "pexec", "pquery":
		pcx := cx
		if op.PrepBg {
			pcx = context.Background() // prepared at start-up, outside any transaction, executed later inside one
		}
		st, err := x.PrepareContext(pcx, q)
		if err != nil {
			r.Err = "prepare: " + err.Error()
			return
		}
		defer st.Close()
		for i := 0; i < op.Reps || i == 0; i++ {
			if op.Kind == "pexec" {
				res, err := st.ExecContext(cx, args...)
				if err != nil {
					r.Err = err.Error()
					return
				}
				a, _ := res.RowsAffected()
				r.Affected += a
				r.LastID, _ = res.LastInsertId()
			} else {
				rows, err := st.QueryContext(cx, args...)
				if err != nil {
					r.Err = err.Error()
					return
				}
				readRows(rows, &r)
			}
		}
	}
	return
}

type runOut struct {
	results  []opResult
	journal  []memsql.Entry
	boundary int64 // clock when the global part ended
	final    map[string][]string
	tc       []string
	xid      string
}

// runProgram executes ops[from:to] on x.
func runOps(cx context.Context, db *sql.DB, conn *sql.Conn, ops []Op, names []string, tx **sql.Tx, out *runOut) {
	for _, op := range ops {
		var x execer = db
		if conn != nil {
			x = conn
		}
		if *tx != nil {
			x = *tx
		}
		switch op.Kind {
		case "begin":
			var r opResult
			if *tx == nil {
				var err error
				var opts *sql.TxOptions
				switch op.Note {
				case "read-only":
					opts = &sql.TxOptions{ReadOnly: true}
				case "serializable":
					opts = &sql.TxOptions{Isolation: sql.LevelSerializable}
				case "read-committed-ro":
					opts = &sql.TxOptions{Isolation: sql.LevelReadCommitted, ReadOnly: true}
				}
				if conn != nil {
					*tx, err = conn.BeginTx(cx, opts)
				} else {
					*tx, err = db.BeginTx(cx, opts)
				}
				if err != nil {
					r.Err = err.Error()
					*tx = nil
				}
			}
			out.results = append(out.results, r)
		case "commit", "rollback":
			var r opResult
			if *tx != nil {
				err := endTx(*tx, op.Kind == "commit")
				if err != nil {
					r.Err = err.Error()
				}
				*tx = nil
			}
			out.results = append(out.results, r)
		default:
			out.results = append(out.results, runOp(cx, x, op, names))
		}
	}
}

// endTx ends a transaction; a panic inside the driver stack becomes an error, and the sql.Tx is
// rolled back so that its connection can be closed.
var wedged bool

func endTx(tx *sql.Tx, commit bool) (err error) {
	defer func() {
		if p := recover(); p != nil {
			err = fmt.Errorf("PANIC: %v", p)
			wedged = true // database/sql never releases the connection of a Tx whose driver Commit/Rollback panicked
			func() {
				defer func() { _ = recover() }()
				_ = tx.Rollback()
			}()
		}
	}()
	if commit {
		return tx.Commit()
	}
	return tx.Rollback()
}

func execute(c Case, db *sql.DB, proxied bool, names []string) *runOut {
	out := &runOut{}
	env.Srv.ResetJournal()
	bg := context.Background()
	var conn *sql.Conn
	if c.Via == "conn" {
		var err error
		if conn, err = db.Conn(bg); err != nil {
			out.results = append(out.results, opResult{Err: "conn: " + err.Error()})
			return out
		}
	}
	wedged = false
	pc := bg
	if proxied {
		switch c.PlainCtx {
		case "seata-no-xid":
			pc = tm.InitSeataContext(bg)
		case "unbound":
			pc = tm.InitSeataContext(bg)
			tm.SetXID(pc, "10.0.0.1:8091:99")
			tm.UnbindXid(pc)
		case "xid-copy-only":
			// the remembered copy of an xid (tm.SetXIDCopy) does not make a context a global transaction
			pc = tm.InitSeataContext(bg)
			tm.SetXIDCopy(pc, "10.0.0.1:8091:99")
		}
	}
	var tx *sql.Tx
	split := len(c.Ops)
	if c.Context == "global-then-plain" {
		split = c.Split
	}
	if proxied && c.Context != "plain" {
		out.xid, _ = atenv.Global("c16", func(cx context.Context) error {
			runOps(cx, db, conn, c.Ops[:split], names, &tx, out)
			if tx != nil {
				_ = endTx(tx, false)
				tx = nil
			}
			return nil
		})
		out.boundary = jclock.Tick()
		// phase two: the coordinator tells every XA branch to commit (AT data is already committed;
		// its phase two only deletes undo logs, asynchronously, which would pollute later journals)
		for _, b := range env.TC.Branches() {
			if b.Type == branch.BranchTypeXA {
				env.TC.BranchCommit(env.Sess, b, 5*time.Second)
			}
		}
		out.boundary = jclock.Tick()
		runOps(pc, db, conn, c.Ops[split:], names, &tx, out)
	} else {
		runOps(pc, db, conn, c.Ops[:split], names, &tx, out)
		if tx != nil && c.Context != "plain" {
			_ = endTx(tx, false)
			tx = nil
		}
		out.boundary = jclock.Tick()
		runOps(pc, db, conn, c.Ops[split:], names, &tx, out)
	}
	if tx != nil {
		_ = endTx(tx, false)
	}
	if conn != nil && !wedged {
		conn.Close()
	}
	out.journal = env.Srv.Journal()
	out.final = env.Srv.Snapshot(atenv.Schema, names...)
	for _, e := range env.TC.Events() {
		if e.Dir == "c2s" {
			out.tc = append(out.tc, fmt.Sprintf("%T", e.Body))
		}
	}
	return out
}

type jline struct {
	conn   int
	text   string
	kind   string
	writes int
	upper  string
	seq    int64
}

func normJournal(j []memsql.Entry, plain bool) []jline {
	ids := map[int]int{}
	var out []jline
	for _, e := range j {
		if e.Kind == "CONNECT" || e.Kind == "CLOSE" || (plain && strings.Contains(e.Upper(), "UNDO_LOG")) || strings.Contains(e.Upper(), "INFORMATION_SCHEMA") {
			continue // (undo_log: the asynchronous phase-two worker of an earlier global transaction;
			// INFORMATION_SCHEMA: the table-metadata refresh ticker, which re-reads every cached table once a minute)
		}
		if _, ok := ids[e.Conn]; !ok {
			ids[e.Conn] = len(ids) + 1
		}
		var a []string
		for _, v := range e.Args {
			a = append(a, memsql.RenderValue(v))
		}
		errc := ""
		if e.Err != "" {
			errc = " !! " + e.Err
		}
		out = append(out, jline{conn: ids[e.Conn], kind: e.Kind, writes: len(e.Writes), upper: e.Upper(), seq: e.Seq,
			text: fmt.Sprintf("%s %s [%s]%s", e.Kind, strings.Join(strings.Fields(e.Query), " "), strings.Join(a, ", "), errc)})
	}
	return out
}

var errCode = regexp.MustCompile(`Error (\d+)`)

func errClass(s string) string {
	if s == "" {
		return ""
	}
	if m := errCode.FindStringSubmatch(s); m != nil {
		return "mysql-" + m[1]
	}
	if strings.HasPrefix(s, "PANIC") {
		return "panic"
	}
	if regexp.MustCompile(`^line \d+ column \d+ near`).MatchString(s) {
		return "mysql-1064" // the proxy's own parser refusing the statement
	}
	return "error"
}

// seataOwn reports whether a statement of the proxied run belongs to the classes the proxy may add.
func seataOwn(l jline) bool {
	u := l.upper
	switch {
	case l.kind == "BEGIN" || l.kind == "COMMIT" || l.kind == "ROLLBACK":
		return true
	case strings.Contains(u, "INFORMATION_SCHEMA"), strings.Contains(u, "UNDO_LOG"), strings.HasPrefix(u, "SHOW VARIABLES"):
		return true
	case strings.HasPrefix(u, "SAVEPOINT SEATAGO"), strings.HasPrefix(u, "ROLLBACK TO SEATAGO"), strings.HasPrefix(u, "RELEASE SAVEPOINT SEATAGO"):
		return true
	case strings.HasPrefix(u, "XA "):
		return true
	case strings.HasPrefix(u, "SELECT") && l.writes == 0:
		return true // image query
	}
	return false
}

var last struct {
	dml, features int
}

func runCase(c Case) *pt.Failure {
	return pt.Guard("C16/crash", func() *pt.Failure {
		env.ResetCase()
		env.CleanUndo()
		atenv.UndoConfig("json", "None", true, true)
		n := atenv.NextCase()
		var names []string
		for i := range c.Tables {
			names = append(names, atenv.TableName(n, i))
		}
		names = append(names, fmt.Sprintf("c%d_x", n)) // the table the program may create itself
		setup := func() *pt.Failure {
			env.DropTables(names)
			for i, tb := range c.Tables {
				if _, err := env.Bare.Exec(tb.DDL(names[i])); err != nil {
					return pt.Failf("C16/harness/setup", "%v", err)
				}
				if q := tb.InsertRows(names[i]); q != "" {
					if _, err := env.Bare.Exec(q); err != nil {
						return pt.Failf("C16/harness/setup", "%v: %s", err, q)
					}
				}
				for _, q := range tb.BigInserts(names[i]) {
					if _, err := env.Bare.Exec(q); err != nil {
						return pt.Failf("C16/harness/setup", "bulk rows: %v", err)
					}
				}
			}
			return nil
		}
		defer env.DropTables(names)
		if fl := setup(); fl != nil {
			return fl
		}
		a := execute(c, handles[c.DSN]["bare"], false, names)
		if fl := setup(); fl != nil {
			return fl
		}
		env.TC.Reset()
		b := execute(c, handles[c.DSN][c.Driver], true, names)
		if _, open, _ := env.Srv.Stats(); open != 0 {
			return pt.Failf("C16/"+c.Driver+"/"+c.Context+"/transaction-left-open", "after the proxied run an engine transaction is still open on %v\n%s", env.Srv.OpenTxConns(), describe(c, names, a, b))
		}
		if c.Lenient {
			for i, rb := range b.results {
				// (without client-side interpolation every parameterised statement takes the prepared path,
				// whose failures incl. panics are known finding C16-K1)
				if strings.HasPrefix(rb.Err, "PANIC") && !ctx.KnownActive("C16-K1") {
					return pt.Failf("C16/"+c.Driver+"/lenient/panic/"+c.Ops[i].Kind, "op %d panicked: %s\n%s", i, rb.Err, describe(c, names, a, b))
				}
			}
			return nil
		}
		split := len(c.Ops)
		if c.Context == "global-then-plain" {
			split = c.Split
		}
		// ---- results
		xaInTx, xaTxFailed := false, false // XA inside a global transaction: a failed statement rolls the whole branch back (C17);
		// what the caller still does with that explicit transaction is refused, which the bare driver does not do
		for i := range c.Ops {
			ra, rb := a.results[i], b.results[i]
			inGlobal := c.Context != "plain" && i < split
			if c.Driver == "xa" && inGlobal {
				k := c.Ops[i].Kind
				switch {
				case k == "begin":
					xaInTx, xaTxFailed = ra.Err == "" && rb.Err == "", false
				case xaTxFailed:
					if k == "commit" || k == "rollback" {
						xaInTx, xaTxFailed = false, false
					}
					continue
				case k == "commit" || k == "rollback":
					xaInTx = false
				case xaInTx && ra.Err != "" && rb.Err != "":
					xaTxFailed = true
				}
			}
			same := ra.String() == rb.String()
			if inGlobal && ra.Err != "" && rb.Err != "" {
				same = errClass(ra.Err) == errClass(rb.Err)
			}
			if !same {
				where := "plain"
				if inGlobal {
					where = "in-global"
				} else if c.Context != "plain" {
					where = "after-global"
				}
				cls := "result"
				if (ra.Err == "") != (rb.Err == "") {
					cls = "error"
				}
				if strings.HasPrefix(rb.Err, "PANIC") {
					cls = "panic"
				}
				if cls == "error" {
					cls += "(" + errClass(ra.Err) + "→" + errClass(rb.Err) + ")"
				}
				return pt.Failf(fmt.Sprintf("C16/%s/%s/%s-differs/%s/%s", c.Driver, where, cls, c.Ops[i].Kind, c.Ops[i].Note),
					"op %d (%s %s) returned\n  bare : %s\n  proxy: %s\n%s", i, c.Ops[i].Kind, c.Ops[i].SQL, ra, rb, describe(c, names, a, b))
			}
		}
		// ---- committed data
		if d := atenv.DiffSnap(a.final, b.final); d != "" {
			return pt.Failf("C16/"+c.Driver+"/"+c.Context+"/data-differs", "tables after the proxied run differ from the bare run:\n%s\n%s", d, describe(c, names, a, b))
		}
		// ---- statements that reached the database
		ja, jb := normJournal(a.journal, c.Context == "plain"), normJournal(b.journal, c.Context == "plain")
		if c.Context == "plain" {
			if len(b.tc) != 0 {
				return pt.Failf("C16/"+c.Driver+"/plain/coordinator-traffic", "no global transaction, yet the client sent %v", b.tc)
			}
			for i := 0; i < len(ja) || i < len(jb); i++ {
				var x, y string
				if i < len(ja) {
					x = fmt.Sprintf("c%d %s", ja[i].conn, ja[i].text)
				}
				if i < len(jb) {
					y = fmt.Sprintf("c%d %s", jb[i].conn, jb[i].text)
				}
				if x != y {
					return pt.Failf("C16/"+c.Driver+"/plain/journal-differs", "statement %d reaching the database differs\n  bare : %s\n  proxy: %s\n%s", i, x, y, describe(c, names, a, b))
				}
			}
			return nil
		}
		// global part: the bare run's business statements are a subsequence of the proxied run's, and
		// everything else is of an allowed class; after the boundary: exact
		var busA, busB, extra []jline
		for _, l := range ja {
			if l.kind == "BEGIN" || l.kind == "COMMIT" || l.kind == "ROLLBACK" || strings.Contains(l.text, " !! ") {
				continue // (a statement that fails may fail earlier under the proxy, e.g. in its image query)
			}
			busA = append(busA, l)
		}
		k := 0
		for _, l := range jb {
			if k < len(busA) && l.text == busA[k].text {
				busB = append(busB, l)
				k++
				continue
			}
			if l.seq > b.boundary && !(l.kind == "BEGIN" || l.kind == "COMMIT" || l.kind == "ROLLBACK") && !strings.Contains(l.text, " !! ") {
				return pt.Failf("C16/"+c.Driver+"/after-global/journal-differs", "after the global transaction the proxy sent a statement the bare driver did not: %s\n%s", l.text, describe(c, names, a, b))
			}
			extra = append(extra, l)
		}
		if k < len(busA) {
			return pt.Failf("C16/"+c.Driver+"/in-global/business-statement-missing-or-changed", "the bare run's statement %q did not reach the database unchanged in the proxied run\n%s", busA[k].text, describe(c, names, a, b))
		}
		failedInA := map[string]bool{}
		for _, l := range ja {
			if strings.Contains(l.text, " !! ") {
				failedInA[l.text] = true
			}
		}
		for _, l := range extra {
			if failedInA[l.text] {
				continue // a business statement that fails the same way in both runs
			}
			if !seataOwn(l) {
				return pt.Failf("C16/"+c.Driver+"/in-global/extra-statement", "the proxied run sent a statement outside the allowed classes: %s\n%s", l.text, describe(c, names, a, b))
			}
		}
		for _, m := range b.tc {
			switch m {
			case "message.GlobalBeginRequest", "message.GlobalCommitRequest", "message.BranchRegisterRequest", "message.BranchReportRequest", "message.GlobalLockQueryRequest", "message.BranchCommitResponse", "message.GlobalRollbackRequest":
			default:
				return pt.Failf("C16/"+c.Driver+"/in-global/unexpected-message", "unexpected coordinator message %s", m)
			}
		}
		return nil
	})
}

func describe(c Case, names []string, a, b *runOut) string {
	var sb strings.Builder
	fmt.Fprintf(&sb, "program (%s, %s, dsn %d, via %s, split %d):\n", c.Driver, c.Context, c.DSN, c.Via, c.Split)
	for i, op := range c.Ops {
		fmt.Fprintf(&sb, "  %d %s %s %v\n", i, op.Kind, op.SQL, goArgs(op.Args))
	}
	sb.WriteString("bare journal:\n" + atenv.Tail(a.journal, 25) + "\nproxy journal:\n" + atenv.Tail(b.journal, 40))
	return sb.String()
}

func TestMain(m *testing.M) {
	env = atenv.Get(atenv.Options{XA: true})
	env.Srv.SetLockWait(300 * time.Millisecond)
	handles[0] = map[string]*sql.DB{"bare": env.Bare, "at": env.AT, "xa": env.XA}
	p := "interpolateParams=false&parseTime=true&multiStatements=true"
	handles[1] = map[string]*sql.DB{"bare": env.OpenWith(memsql.DriverName, p), "at": env.OpenWith(atenv.ATDriver, p), "xa": env.OpenWith(atenv.XADriver, p)}
	_ = message.MessageTypeGlobalBegin
	ctx.Rec.SetRule("generator: programs of 1–8 steps over the database/sql API (db or pinned Conn; Exec, Query, Prepare+Exec/Query executed 1–3 times; BeginTx … Commit/Rollback) whose statements come from the AT grammar (INSERT/UPDATE/DELETE/upsert/SELECT/SELECT…FOR UPDATE with literal and bound arguments), statements that fail (duplicate key, unknown table or column, syntax error), DDL (CREATE/DROP of a scratch table and DML on it), SET/SHOW/SELECT 1, user SAVEPOINT/ROLLBACK TO inside explicit transactions and multi-statement text (DSN with multiStatements); two DSN variants (interpolateParams on / off); AT and XA proxy. Each program runs through the bare driver and, on identically re-created tables, through the proxy: plain context, inside tm.WithGlobalTx (healthy coordinator, global commit, phase-two commit delivered), or a global part followed by a plain part on the same handle. Oracle plain: identical statement journal (text, protocol, arguments, errors, connection pattern, transaction bracketing), identical results (typed cells, columns, affected, ids, error text), identical tables, no coordinator message. Oracle global: per statement identical result (errors compared by class), identical tables after global commit, the bare run's business statements reach the database unchanged and in order, every additional statement is an image SELECT, undo_log/meta/savepoint/XA/transaction-verb statement, only expected message kinds. Non-trivial: ≥1 DML plus ≥1 of {prepared, explicit transaction, pinned connection, multi-statement, failing statement}. Distinct by program shape.")
	ctx.Rec.Assume("both runs share memsql and its parser: valid MySQL outside the engine's subset is not generated", "inside a global transaction the documented AT restrictions are excluded from the generator (assigning a primary key, known-finding classes K1/K3/K4)")
	ctx.RunWitnesses(func(f stats.Finding) *pt.Failure {
		var c Case
		if err := json.Unmarshal(f.Witness, &c); err != nil {
			return nil
		}
		return runCase(c)
	})
	ctx.Main(m)
}

func drawOps(rt *rapid.T, c *Case) {
	global := c.Context != "plain"
	opt := gen.StmtOptions{ForceParamStrings: global && ctx.KnownActive("C16-K2"), NoOmittedAutoKeyUpsert: global, NoNullAutoKey: global, NoUpsertOnUnique: global, NoKeyAssignment: global,
		Kinds: []string{"insert", "update", "update", "delete", "upsert", "select", "select", "select_for_update"}}
	n := rapid.IntRange(1, 8).Draw(rt, "nOps")
	inTx := false
	scratch := false
	for i := 0; i < n; i++ {
		k := rapid.IntRange(0, 19).Draw(rt, "opClass")
		switch {
		case k == 0 && !inTx:
			b := Op{Kind: "begin"}
			if !global {
				// transaction options reach the database through the proxy as they are (outside a global
				// transaction; inside one the proxy owns the local transaction)
				b.Note = rapid.SampledFrom([]string{"", "", "", "read-only", "serializable", "read-committed-ro"}).Draw(rt, "txOpts")
			}
			c.Ops = append(c.Ops, b)
			inTx = true
		case k == 1 && inTx:
			c.Ops = append(c.Ops, Op{Kind: rapid.SampledFrom([]string{"commit", "commit", "rollback"}).Draw(rt, "end")})
			inTx = false
		case k == 2:
			// failing statements
			tn := "{T0}"
			q := rapid.SampledFrom([]string{"SELECT * FROM nosuch_table", "SELEC 1", "INSERT INTO " + tn + " SELECT * FROM " + tn, "DELETE FROM nosuch_table WHERE id = 1"}).Draw(rt, "bad")
			kind := "exec"
			if strings.HasPrefix(q, "SELECT") {
				kind = "query"
			}
			c.Ops = append(c.Ops, Op{Kind: kind, SQL: q, Note: "failing"})
		case k == 3 && !global:
			x := fmt.Sprintf("{T%d}", len(c.Tables))
			if !scratch {
				c.Ops = append(c.Ops, Op{Kind: "exec", SQL: "CREATE TABLE " + x + " (id INT PRIMARY KEY, v VARCHAR(20))", Note: "ddl"})
				scratch = true
			} else {
				q := rapid.SampledFrom([]string{"INSERT INTO " + x + " (id, v) VALUES (1, 'a')", "UPDATE " + x + " SET v = 'b' WHERE id = 1", "DROP TABLE " + x, "SELECT * FROM " + x}).Draw(rt, "scratchOp")
				kind := "exec"
				if strings.HasPrefix(q, "SELECT") {
					kind = "query"
				}
				if strings.HasPrefix(q, "DROP") {
					scratch = false
				}
				c.Ops = append(c.Ops, Op{Kind: kind, SQL: q, Note: "ddl"})
			}
		case k == 4 && !global:
			q := rapid.SampledFrom([]string{"SET @a = 1", "SELECT 1", "SHOW VARIABLES LIKE 'version'"}).Draw(rt, "misc")
			kind := "query"
			if strings.HasPrefix(q, "SET") {
				kind = "exec"
			}
			c.Ops = append(c.Ops, Op{Kind: kind, SQL: q, Note: "misc"})
		case k == 5 && inTx && !global:
			q := rapid.SampledFrom([]string{"SAVEPOINT sp1", "ROLLBACK TO sp1", "RELEASE SAVEPOINT sp1"}).Draw(rt, "sp")
			c.Ops = append(c.Ops, Op{Kind: "exec", SQL: q, Note: "savepoint"})
		case k == 6 && c.DSN == 1 && !global:
			s1 := gen.DrawStmt(rt, c.Tables, gen.StmtOptions{ParamTenths: -1, Kinds: []string{"update", "delete", "insert"}})
			s2 := gen.DrawStmt(rt, c.Tables, gen.StmtOptions{ParamTenths: -1, Kinds: []string{"update", "delete", "insert"}})
			if len(s1.Args) == 0 && len(s2.Args) == 0 {
				c.Ops = append(c.Ops, Op{Kind: "exec", SQL: s1.SQL + "; " + s2.SQL, Note: "multi"})
			}
		default:
			st := gen.DrawStmt(rt, c.Tables, opt)
			kind := "exec"
			if st.Kind == "select" || st.Kind == "select_for_update" {
				kind = "query"
			}
			reps := 0
			prepared := rapid.IntRange(0, 3).Draw(rt, "prepared") == 0
			if prepared && global && ctx.KnownActive("C16-K1") {
				ctx.Rec.Excluded("C16-K1")
			} else if prepared {
				kind = "p" + kind
				reps = rapid.IntRange(1, 3).Draw(rt, "reps")
				if st.Kind == "insert" {
					reps = 1
				}
			}
			op := Op{Kind: kind, SQL: st.SQL, Args: st.Args, Reps: reps, Note: st.Kind}
			if strings.HasPrefix(kind, "p") && rapid.IntRange(0, 2).Draw(rt, "prepBg") == 0 {
				op.PrepBg = true
			}
			c.Ops = append(c.Ops, op)
		}
	}
	if inTx && rapid.Bool().Draw(rt, "closeTx") {
		c.Ops = append(c.Ops, Op{Kind: rapid.SampledFrom([]string{"commit", "rollback"}).Draw(rt, "end")})
	}
}

func shape(c Case) (string, bool) {
	var parts []string
	dml, feat := 0, 0
	if c.Via == "conn" {
		feat++
	}
	for _, op := range c.Ops {
		parts = append(parts, op.Kind+":"+op.Note)
		switch op.Note {
		case "insert", "update", "delete", "upsert":
			dml++
		case "multi", "failing":
			feat++
		}
		if op.Kind == "begin" || strings.HasPrefix(op.Kind, "p") {
			feat++
		}
	}
	return fmt.Sprintf("%s|%s%s|%d|%s|%s", c.Driver, c.Context, c.PlainCtx, c.DSN, c.Via, strings.Join(parts, ",")), dml > 0 && feat > 0
}

func prop(driver string, contexts []string) func(rt *rapid.T) {
	return func(rt *rapid.T) {
		c := Case{Driver: driver, Context: rapid.SampledFrom(contexts).Draw(rt, "context"), DSN: rapid.IntRange(0, 1).Draw(rt, "dsn"), Via: rapid.SampledFrom([]string{"db", "conn"}).Draw(rt, "via")}
		if c.Context != "plain" && c.DSN == 1 {
			// AT needs client-side interpolation (interpolateParams=true, as in the project's samples):
			// without it the target driver declines every parameterised image query
			if rapid.IntRange(0, 3).Draw(rt, "lenient") == 0 {
				c.Lenient = true // still run it: refused statements are fine, leftovers are not
			} else {
				c.DSN = 0
				ctx.Rec.Excluded("assumption:interpolateParams-in-global")
			}
		}
		if c.Context != "global" {
			c.PlainCtx = rapid.SampledFrom([]string{"", "", "seata-no-xid", "unbound", "xid-copy-only"}).Draw(rt, "plainCtx")
		}
		nt := rapid.IntRange(1, 2).Draw(rt, "nTables")
		for i := 0; i < nt; i++ {
			c.Tables = append(c.Tables, gen.DrawTable(rt, i))
		}
		drawOps(rt, &c)
		if c.Context == "global-then-plain" {
			c.Split = rapid.IntRange(0, len(c.Ops)).Draw(rt, "split")
		}
		fl := runCase(c)
		sh, nt2 := shape(c)
		ctx.Rec.Case(driver+"-"+c.Context, nt2, sh, c, "driver:"+driver, "context:"+c.Context, fmt.Sprintf("dsn:%d", c.DSN), "via:"+c.Via)
		ctx.Judge(rt, driver, fl, c)
	}
}

func TestPropATPlain(t *testing.T) { ctx.Check(t, prop("at", []string{"plain"})) }

var bigDone bool

// bigCase: a statement over more rows than one IN list of the image queries holds (1000), once per process;
// size and statement kind follow the shard number.
func bigCase() Case {
	sh := 0
	if v := os.Getenv("VERIF_SHARD"); v != "" {
		fmt.Sscanf(v, "%d", &sh)
	}
	n := []int{1001, 2000, 1500, 1000, 999, 2001, 2500, 3000}[sh%8]
	kind := []string{"update", "delete", "insert"}[(sh/2)%3]
	tb := gen.TableSpec{KeyShape: "int", Cols: []gen.ColSpec{{Name: "id", Type: "INT", Base: "INT"}, {Name: "c0", Type: "INT", Base: "INT", Nullable: true}, {Name: "c1", Type: "VARCHAR(32)", Base: "VARCHAR", Nullable: true}}, PK: []string{"id"},
		Rows: [][]gen.Lit{{{Kind: "int", I: 1}, {Kind: "int", I: 5}, {Kind: "str", S: "a"}}}, BigRows: n}
	tables := []gen.TableSpec{tb}
	st := gen.BigStmt(nil, tables, 0, kind, n)
	return Case{Driver: "at", Context: "global", DSN: 0, Via: "db", Tables: tables, Ops: []Op{{Kind: "exec", SQL: st.SQL, Note: st.Kind}}}
}

func TestPropATGlobal(t *testing.T) {
	if !bigDone {
		bigDone = true
		c := bigCase()
		fl := runCase(c)
		ctx.Rec.Case("at-global", true, "large-statement", c, "driver:at", "context:global", "large-statement")
		ctx.Judge(t, "at", fl, c)
	}
	ctx.Check(t, prop("at", []string{"global", "global-then-plain"}))
}
func TestPropXAPlain(t *testing.T) { ctx.Check(t, prop("xa", []string{"plain"})) }

// XA inside a global transaction is C17's subject; here it only provides the history for the plain part
// that follows on the same handle (pooled or pinned connections that carried an XA branch before).
func TestPropXAGlobalThenPlain(t *testing.T) {
	ctx.Check(t, func(rt *rapid.T) {
		c := Case{Driver: "xa", Context: "global-then-plain", DSN: 0, Via: rapid.SampledFrom([]string{"db", "conn"}).Draw(rt, "via")}
		c.Tables = append(c.Tables, gen.DrawTable(rt, 0))
		// the global part: one XA branch, explicit or autocommit, one statement (no conflicts between branches)
		st := gen.DrawStmt(rt, c.Tables, gen.StmtOptions{NoKeyAssignment: true, Kinds: []string{"insert", "update", "delete"}})
		kind := "exec"
		if rapid.Bool().Draw(rt, "explicit") {
			c.Ops = append(c.Ops, Op{Kind: "begin"}, Op{Kind: kind, SQL: st.SQL, Args: st.Args, Note: st.Kind}, Op{Kind: rapid.SampledFrom([]string{"commit", "rollback"}).Draw(rt, "end")})
		} else {
			c.Ops = append(c.Ops, Op{Kind: kind, SQL: st.SQL, Args: st.Args, Note: st.Kind})
		}
		c.Split = len(c.Ops)
		plain := Case{Context: "plain", DSN: 0, Tables: c.Tables}
		drawOps(rt, &plain)
		c.Ops = append(c.Ops, plain.Ops...)
		fl := runCase(c)
		sh, _ := shape(c)
		ctx.Rec.Case("xa-global-then-plain", len(plain.Ops) > 0, sh, c, "driver:xa", "context:global-then-plain", "via:"+c.Via)
		ctx.Judge(rt, "xa", fl, c)
	})
}

func TestPropReplaySaved(t *testing.T) {
	ctx.ReplayAll(t, func(v *stats.Violation) *pt.Failure {
		var c Case
		if err := json.Unmarshal(v.Case, &c); err != nil {
			return pt.Failf("C16/replay", "bad case: %v", err)
		}
		return runCase(c)
	})
}

func TestReplay(t *testing.T) {
	var c Case
	v, ok := pt.Replay(t, &c)
	if !ok {
		t.Skip("no VERIF_REPLAY_FILE")
	}
	defer ctx.Rec.Flush()
	fl := runCase(c)
	ctx.Rec.Case("replay", true, string(v.Case), c)
	ctx.Judge(t, v.Test, fl, c)
}

var _ = sort.Strings
