// C06 — TCC fence: idempotence, anti-suspension and empty rollback (model-based).
package c06

import (
	"context"
	"database/sql"
	"encoding/json"
	"fmt"
	"math"
	"strings"
	"sync"
	"testing"
	"time"

	"pgregory.net/rapid"

	"seata.apache.org/seata-go/pkg/rm/tcc/fence"
	"seata.apache.org/seata-go/pkg/rm/tcc/fence/enum"
	"seata.apache.org/seata-go/pkg/tm"

	"verifharness/atenv"
	"verifharness/memsql"
	"verifharness/pt"
	"verifharness/stats"
)

var (
	ctx     = pt.New("C06")
	env     *atenv.Env
	fenceDB *sql.DB // through the fence driver
)

const fenceDDL = "CREATE TABLE `tcc_fence_log` (`xid` VARCHAR(128) NOT NULL, `branch_id` BIGINT NOT NULL, `action_name` VARCHAR(64) NOT NULL, `status` TINYINT NOT NULL, `gmt_create` DATETIME(3) NOT NULL, `gmt_modified` DATETIME(3) NOT NULL, PRIMARY KEY (`xid`, `branch_id`))"

// Step is one delivery of a phase for a branch.
type Step struct {
	Branch int    `json:"branch"`
	Phase  string `json:"phase"`           // prepare | commit | rollback
	Fault  int    `json:"fault,omitempty"` // k>0: the k-th statement reaching the database during this step fails
	// Race: a second delivery (same branch) runs concurrently with this one
	Race string `json:"race,omitempty"`
	// RaceAt k>0: the harness owns the interleaving of the race: this delivery is parked before its k-th
	// statement, the racing delivery then runs until it returns (or gives up on a row lock), then this one continues
	RaceAt int `json:"race_at,omitempty"`
	// BizFail: the business statement of this delivery fails (the participant rolls its transaction back)
	BizFail bool `json:"biz_fail,omitempty"`
}

type Case struct {
	Mode  string `json:"mode"` // api (fence.WithFence on the business transaction) | driver (the seata fence driver)
	Steps []Step `json:"steps"`
	// SameCtx: all deliveries of a branch reuse one seata context object (a retry loop of the caller)
	SameCtx bool `json:"same_ctx,omitempty"`
	// IDKind: which branch ids the two branches carry: 0 = 7000+b, 1 = b (0 and 1), 2 = negative, 3 = close to MaxInt64
	IDKind int `json:"id_kind,omitempty"`
	// XidKind: 0 ordinary ip:port:id, 1 IPv6 zone literal (contains '%'), 2 long DNS name, 3 a text that looks like a format verb
	XidKind int `json:"xid_kind,omitempty"`
}

type model struct {
	status                      int // 0 none, 1 tried, 2 committed, 3 rollbacked, 4 suspended
	tried, confirmed, cancelled int
}

// apply returns whether the step must succeed, and the next model.
func (m model) apply(phase string) (model, bool) {
	switch phase {
	case "prepare":
		if m.status == 0 {
			m.status, m.tried = 1, m.tried+1
			return m, true
		}
		return m, false
	case "commit":
		switch m.status {
		case 1:
			m.status, m.confirmed = 2, m.confirmed+1
			return m, true
		case 2:
			return m, true
		}
		return m, false
	case "rollback":
		switch m.status {
		case 0:
			m.status = 4
			return m, true
		case 1:
			m.status, m.cancelled = 3, m.cancelled+1
			return m, true
		case 3, 4:
			return m, true
		}
		return m, false
	}
	return m, false
}

func phaseOf(p string) enum.FencePhase {
	switch p {
	case "prepare":
		return enum.FencePhasePrepare
	case "commit":
		return enum.FencePhaseCommit
	}
	return enum.FencePhaseRollback
}

func column(p string) string {
	switch p {
	case "prepare":
		return "tried"
	case "commit":
		return "confirmed"
	}
	return "cancelled"
}

// xid of the case: ordinary, or an IPv6 zone literal (contains '%'), or a long DNS name
var xid = "10.0.0.9:8091:4711"

var xidKinds = []string{"10.0.0.9:8091:4711", "[fe80::1%eth0]:8091:2612349", "seata-server-0.seata-server.middleware.svc.cluster.local:8091:9007199254740993", "100%d:8091:7"}

var idKind int

func branchID(b int) int64 {
	switch idKind {
	case 1:
		return int64(b)
	case 2:
		return -int64(b) - 1
	case 3:
		return math.MaxInt64 - int64(b)
	}
	return int64(7000 + b)
}

// deliver runs one phase for one branch the way a TCC participant does.
var sharedCtx = map[int]context.Context{}

func deliver(mode string, b int, phase string, same bool) (err error) {
	defer func() {
		if p := recover(); p != nil {
			err = fmt.Errorf("PANIC: %v", p)
		}
	}()
	cx := tm.InitSeataContext(context.Background())
	if same {
		if sharedCtx[b] == nil {
			sharedCtx[b] = cx
		}
		cx = sharedCtx[b]
	}
	tm.SetXID(cx, xid)
	tm.SetTxName(cx, "c06")
	tm.SetBusinessActionContext(cx, &tm.BusinessActionContext{Xid: xid, BranchId: branchID(b), ActionName: "act"})
	tm.SetFencePhase(cx, phaseOf(phase))
	effect := "UPDATE eff SET " + column(phase) + " = " + column(phase) + " + 1 WHERE b = ?"
	if mode == "api" {
		tx, err := env.Bare.BeginTx(cx, nil)
		if err != nil {
			return err
		}
		err = fence.WithFence(cx, tx, func() error {
			_, e := tx.ExecContext(cx, effect, b)
			return e
		})
		if err != nil {
			_ = tx.Rollback()
			return err
		}
		return tx.Commit()
	}
	tx, err := fenceDB.BeginTx(cx, nil)
	if err != nil {
		return err
	}
	if _, err = tx.ExecContext(cx, effect, b); err != nil {
		_ = tx.Rollback()
		return err
	}
	return tx.Commit()
}

type dbState struct {
	status                      int
	tried, confirmed, cancelled int
}

func readState(b int) dbState {
	var s dbState
	for _, r := range env.Srv.Rows(atenv.Schema, "tcc_fence_log") {
		if r["branch_id"] == branchID(b) {
			if v, ok := r["status"].(int64); ok {
				s.status = int(v)
			}
		}
	}
	for _, r := range env.Srv.Rows(atenv.Schema, "eff") {
		if r["b"] == int64(b) {
			s.tried = int(r["tried"].(int64))
			s.confirmed = int(r["confirmed"].(int64))
			s.cancelled = int(r["cancelled"].(int64))
		}
	}
	return s
}

func (m model) db() dbState {
	return dbState{m.status, m.tried, m.confirmed, m.cancelled}
}

var last struct{ interesting bool }

func runCase(c Case) *pt.Failure {
	return pt.Guard("C06/crash", func() *pt.Failure {
		env.Srv.ClearFaults()
		env.Srv.KillOpenTransactions()
		for _, q := range []string{"DROP TABLE IF EXISTS tcc_fence_log", "DROP TABLE IF EXISTS eff", fenceDDL, "CREATE TABLE eff (b INT PRIMARY KEY, tried INT NOT NULL, confirmed INT NOT NULL, cancelled INT NOT NULL)", "INSERT INTO eff VALUES (0,0,0,0),(1,0,0,0)"} {
			if _, err := env.Bare.Exec(q); err != nil {
				return pt.Failf("C06/harness/setup", "%s: %v", q, err)
			}
		}
		models := []model{{}, {}}
		idKind = c.IDKind
		xid = xidKinds[c.XidKind%len(xidKinds)]
		sharedCtx = map[int]context.Context{}
		var hist []string
		last.interesting = false
		for i, st := range c.Steps {
			env.Srv.ResetJournal()
			var f *memsql.Fault
			if st.BizFail {
				f = &memsql.Fault{Match: func(e *memsql.Entry) bool { return strings.HasPrefix(e.Upper(), "UPDATE EFF") }}
				env.Srv.AddFault(f)
			}
			if st.Fault > 0 {
				n := 0
				f = &memsql.Fault{Match: func(e *memsql.Entry) bool {
					if e.Kind == "CONNECT" || e.Kind == "CLOSE" {
						return false
					}
					n++
					return n == st.Fault
				}}
				env.Srv.AddFault(f)
			}
			var err, err2 error
			if st.Race != "" && st.RaceAt > 0 {
				n := 0
				p := &memsql.Pause{Once: true, Hit: make(chan memsql.Entry, 1), Release: make(chan struct{}), Match: func(e *memsql.Entry) bool {
					if e.Kind == "CONNECT" || e.Kind == "CLOSE" {
						return false
					}
					n++
					return n == st.RaceAt
				}}
				env.Srv.AddPause(p)
				done1 := make(chan struct{})
				go func() { defer close(done1); err = deliver(c.Mode, st.Branch, st.Phase, false) }()
				select {
				case <-p.Hit:
					err2 = deliver(c.Mode, st.Branch, st.Race, false)
					close(p.Release)
					<-done1
				case <-done1:
					// the first delivery issued fewer statements: the second simply follows it
					env.Srv.ClearFaults()
					err2 = deliver(c.Mode, st.Branch, st.Race, false)
				}
			} else if st.Race != "" {
				var wg sync.WaitGroup
				wg.Add(2)
				go func() { defer wg.Done(); err = deliver(c.Mode, st.Branch, st.Phase, false) }()
				go func() { defer wg.Done(); err2 = deliver(c.Mode, st.Branch, st.Race, false) }()
				wg.Wait()
			} else {
				err = deliver(c.Mode, st.Branch, st.Phase, c.SameCtx)
			}
			env.Srv.ClearFaults()
			fired := f != nil && f.Fired() > 0
			got := readState(st.Branch)
			m := models[st.Branch]
			desc := fmt.Sprintf("step %d: %s(branch %d)", i, st.Phase, st.Branch)
			if st.Race != "" {
				desc += " ∥ " + st.Race
				if st.RaceAt > 0 {
					desc += fmt.Sprintf(" (first parked before its statement %d while the second runs)", st.RaceAt)
				}
			}
			if st.Fault > 0 {
				desc += fmt.Sprintf(" with a failure at statement %d (fired=%v)", st.Fault, fired)
			}
			if st.BizFail {
				desc += fmt.Sprintf(" whose business statement fails (fired=%v)", fired)
			}
			hist = append(hist, fmt.Sprintf("%s -> err=%v err2=%v; record status %d, effects try=%d confirm=%d cancel=%d", desc, short(err), short(err2), got.status, got.tried, got.confirmed, got.cancelled))
			info := func() string {
				return "mode " + c.Mode + "\n  " + strings.Join(hist, "\n  ") + "\n" + atenv.Tail(env.Srv.Journal(), 16)
			}
			if (err != nil && strings.HasPrefix(err.Error(), "PANIC")) || (err2 != nil && strings.HasPrefix(err2.Error(), "PANIC")) {
				return pt.Failf("C06/"+c.Mode+"/panic/"+st.Phase, "%s", info())
			}
			// invariants that hold whatever happened
			if got.tried > 1 || got.confirmed > 1 || got.cancelled > 1 {
				return pt.Failf("C06/"+c.Mode+"/effect-applied-twice/"+st.Phase+faultTag(st), "a business effect was applied more than once\n%s", info())
			}
			if got.confirmed > 0 && got.cancelled > 0 {
				return pt.Failf("C06/"+c.Mode+"/confirm-and-cancel/"+st.Phase+faultTag(st), "both confirm and cancel were applied\n%s", info())
			}
			// candidates: the serial outcomes the model allows
			var cands []model
			var candDesc []string
			if st.Race == "" {
				next, ok := m.apply(st.Phase)
				switch {
				case fired:
					// the step may have failed (nothing changes) or, if the failure hit after the commit point, succeeded
					cands = append(cands, m)
					candDesc = append(candDesc, "failed: unchanged")
					if ok && err == nil {
						cands = []model{next}
						candDesc = []string{"succeeded"}
					}
					if err == nil && !ok {
						return pt.Failf("C06/"+c.Mode+"/accepted-what-must-be-refused/"+st.Phase+faultTag(st)+fmt.Sprintf("/from-%d", m.status), "%s returned nil in state %d\n%s", st.Phase, m.status, info())
					}
				case ok:
					if err != nil {
						return pt.Failf("C06/"+c.Mode+"/refused-what-must-succeed/"+st.Phase+fmt.Sprintf("/from-%d", m.status), "%s failed in state %d: %v\n%s", st.Phase, m.status, err, info())
					}
					cands = append(cands, next)
				default:
					if err == nil {
						return pt.Failf("C06/"+c.Mode+"/accepted-what-must-be-refused/"+st.Phase+fmt.Sprintf("/from-%d", m.status), "%s returned nil in state %d\n%s", st.Phase, m.status, info())
					}
					cands = append(cands, m)
				}
			} else {
				// two concurrent deliveries: any serial order, each delivery either applied or failed (a
				// concurrent delivery may time out on the row lock or lose a duplicate-key race)
				// Without an injected failure the return value is tied to the outcome: a delivery that
				// returned nil was applied (possibly as a permitted no-op), one that returned an error changed nothing.
				strict := st.Fault == 0 && !st.BizFail
				for oi, order := range [][2]string{{st.Phase, st.Race}, {st.Race, st.Phase}} {
					errs := [2]error{err, err2}
					if oi == 1 {
						errs = [2]error{err2, err}
					}
					for mask := 0; mask < 4; mask++ {
						cur := m
						okAll := true
						for j, ph := range order {
							failed := mask&(1<<j) != 0
							if strict && failed != (errs[j] != nil) {
								okAll = false
								break
							}
							if failed {
								continue // this delivery failed: no change
							}
							nx, ok := cur.apply(ph)
							if !ok {
								okAll = false
								break
							}
							cur = nx
						}
						if okAll {
							cands = append(cands, cur)
						}
					}
				}
			}
			matched := -1
			for k, cm := range cands {
				if cm.db() == got {
					matched = k
					break
				}
			}
			if matched < 0 {
				var want []string
				for _, cm := range cands {
					want = append(want, fmt.Sprintf("%+v", cm.db()))
				}
				cls := "state-diverges"
				if got.status == m.status && (got.tried != m.tried || got.confirmed != m.confirmed || got.cancelled != m.cancelled) {
					cls = "effect-without-record"
				} else if got.status != m.status && got.tried == m.tried && got.confirmed == m.confirmed && got.cancelled == m.cancelled && st.Phase != "rollback" {
					cls = "record-without-effect"
				}
				return pt.Failf("C06/"+c.Mode+"/"+cls+"/"+st.Phase+faultTag(st)+raceTag(st)+fmt.Sprintf("/from-%d", m.status), "after %s the database holds %+v, the model allows %v\n%s", desc, got, want, info())
			}
			models[st.Branch] = cands[matched]
			if st.Race != "" || fired || (st.Phase == "rollback" && m.status == 0) || (st.Phase == "prepare" && m.status == 4) {
				last.interesting = true
			}
		}
		if _, open, _ := env.Srv.Stats(); open != 0 {
			return pt.Failf("C06/"+c.Mode+"/transaction-left-open", "engine transactions left open on %v\n  %s", env.Srv.OpenTxConns(), strings.Join(hist, "\n  "))
		}
		return nil
	})
}

func short(err error) string {
	if err == nil {
		return "nil"
	}
	s := err.Error()
	if len(s) > 90 {
		s = s[:90] + "…"
	}
	return s
}

func faultTag(st Step) string {
	if st.Fault > 0 {
		return "/fault"
	}
	if st.BizFail {
		return "/business-failure"
	}
	return ""
}

func raceTag(st Step) string {
	if st.Race != "" && st.RaceAt > 0 {
		return fmt.Sprintf("/race-%s-at-%d", st.Race, st.RaceAt)
	}
	if st.Race != "" {
		return "/race-" + st.Race
	}
	return ""
}

func TestMain(m *testing.M) {
	env = atenv.Get(atenv.Options{})
	env.Srv.SetLockWait(150 * time.Millisecond)
	sql.Register("seata-fence-verif", &fence.FenceDriver{TargetDriver: memsql.Driver{}})
	var err error
	if fenceDB, err = sql.Open("seata-fence-verif", env.DSN); err != nil {
		panic(err)
	}
	ctx.Rec.SetRule("generator: delivery sequences of 1–8 steps over {prepare, commit, rollback} × 2 branches sharing tcc_fence_log, with repetition; a step may carry a database failure at its k-th statement (k=1..8: begin, fence select/insert/update, business update, commit) or be raced by a second concurrent delivery for the same branch; two ways of using the fence: fence.WithFence on the business transaction (api) and the seata fence driver (driver). Each delivery runs the real fence code against memsql and a business effect (a counter per phase). Oracle: a reference state machine per branch (none/tried/committed/rollbacked/suspended with the statement's rules: duplicates are no-ops, rollback before try suspends and applies nothing, try after suspension is refused, commit after rollback and rollback after commit are refused); after every step record status and the three effect counters must equal a state the model allows (with a fired failure: unchanged, or the successful outcome if the call returned nil; with a race: any serial order in which each delivery applied or failed), every counter ≤ 1, never confirm and cancel, the return value nil exactly when the model says so, no panic, no transaction left open. Non-trivial: a sequence with a race, a fired failure, an empty rollback or a try after suspension. Distinct by the phase/fault/race pattern.")
	ctx.Rec.Assume("the participant commits the transaction when WithFence returns nil and rolls it back otherwise (harness plays the documented usage)", "memsql's row locks and unique-key waits stand for InnoDB's")
	ctx.RunWitnesses(func(f stats.Finding) *pt.Failure {
		var c Case
		if err := json.Unmarshal(f.Witness, &c); err != nil {
			return nil
		}
		return runCase(c)
	})
	ctx.Main(m)
}

func prop(mode string) func(rt *rapid.T) {
	return func(rt *rapid.T) {
		c := Case{Mode: mode}
		n := rapid.IntRange(1, 8).Draw(rt, "n")
		for i := 0; i < n; i++ {
			st := Step{Branch: rapid.IntRange(0, 1).Draw(rt, "branch"), Phase: rapid.SampledFrom([]string{"prepare", "commit", "rollback", "rollback"}).Draw(rt, "phase")}
			switch rapid.IntRange(0, 5).Draw(rt, "extra") {
			case 0:
				st.Fault = rapid.IntRange(1, 8).Draw(rt, "fault")
			case 1:
				st.Race = rapid.SampledFrom([]string{"prepare", "commit", "rollback"}).Draw(rt, "race")
				st.RaceAt = rapid.SampledFrom([]int{0, 2, 3, 4, 5}).Draw(rt, "raceAt")
			case 2:
				st.BizFail = true
			}
			c.Steps = append(c.Steps, st)
		}
		c.SameCtx = rapid.IntRange(0, 3).Draw(rt, "sameCtx") == 0
		c.IDKind = rapid.SampledFrom([]int{0, 0, 0, 1, 2, 3}).Draw(rt, "idKind")
		c.XidKind = rapid.SampledFrom([]int{0, 0, 0, 1, 2, 3}).Draw(rt, "xidKind")
		fl := runCase(c)
		var sh []string
		for _, st := range c.Steps {
			sh = append(sh, fmt.Sprintf("%s%d%s%s%v", st.Phase[:1], st.Branch, faultTag(st), raceTag(st), st.BizFail))
		}
		sh = append(sh, fmt.Sprint(c.SameCtx, c.IDKind, c.XidKind))
		ctx.Rec.Case(mode, last.interesting, mode+"|"+strings.Join(sh, ","), c, "mode:"+mode)
		ctx.Judge(rt, mode, fl, c)
	}
}

func TestPropFenceAPI(t *testing.T) { ctx.Check(t, prop("api")) }

// The fence driver keeps record and business effect in two transactions and cannot skip the business
// code (known finding C06-K1): while that finding is active only its legal, duplicate-free, fault-free
// deliveries are generated; everything else is counted as excluded.
func TestPropFenceDriver(t *testing.T) {
	if !ctx.KnownActive("C06-K1") {
		ctx.Check(t, prop("driver"))
		return
	}
	ctx.Check(t, func(rt *rapid.T) {
		ctx.Rec.Excluded("C06-K1")
		c := Case{Mode: "driver"}
		for b := 0; b < 2; b++ {
			switch rapid.IntRange(0, 3).Draw(rt, "path") {
			case 0:
				c.Steps = append(c.Steps, Step{Branch: b, Phase: "prepare"}, Step{Branch: b, Phase: "commit"})
			case 1:
				c.Steps = append(c.Steps, Step{Branch: b, Phase: "prepare"}, Step{Branch: b, Phase: "rollback"})
			case 2:
				c.Steps = append(c.Steps, Step{Branch: b, Phase: "prepare"})
			}
		}
		if rapid.Bool().Draw(rt, "interleave") && len(c.Steps) == 4 {
			c.Steps[1], c.Steps[2] = c.Steps[2], c.Steps[1]
		}
		if len(c.Steps) == 0 {
			c.Steps = []Step{{Branch: 0, Phase: "prepare"}}
		}
		// a delivery whose business statement fails (both transactions roll back: nothing changes), then
		// the redelivery, optionally on the same seata context object
		if rapid.IntRange(0, 2).Draw(rt, "bizFail") == 0 {
			k := rapid.IntRange(0, len(c.Steps)-1).Draw(rt, "failAt")
			failed := c.Steps[k]
			failed.BizFail = true
			c.Steps = append(c.Steps[:k], append([]Step{failed}, c.Steps[k:]...)...)
			c.SameCtx = rapid.Bool().Draw(rt, "sameCtx")
		}
		fl := runCase(c)
		var sh []string
		for _, st := range c.Steps {
			sh = append(sh, fmt.Sprintf("%s%d%v", st.Phase[:1], st.Branch, st.BizFail))
		}
		sh = append(sh, fmt.Sprint(c.SameCtx))
		ctx.Rec.Case("driver", len(c.Steps) >= 3, "driver|"+strings.Join(sh, ","), c, "mode:driver")
		ctx.Judge(rt, "driver", fl, c)
	})
}

func TestPropReplaySaved(t *testing.T) {
	ctx.ReplayAll(t, func(v *stats.Violation) *pt.Failure {
		var c Case
		if err := json.Unmarshal(v.Case, &c); err != nil {
			return pt.Failf("C06/replay", "bad case: %v", err)
		}
		return runCase(c)
	})
}

func TestReplay(t *testing.T) {
	var c Case
	v, ok := pt.Replay(t, &c)
	if !ok {
		t.Skip("no VERIF_REPLAY_FILE")
	}
	defer ctx.Rec.Flush()
	fl := runCase(c)
	ctx.Rec.Case("replay", true, string(v.Case), c)
	ctx.Judge(t, v.Test, fl, c)
}
