// C14 — concurrent requests are answered by their own responses; stragglers do no harm.
package c14

import (
	"context"
	"encoding/json"
	"fmt"
	"os"
	"runtime"
	"strconv"
	"strings"
	"sync"
	"sync/atomic"
	"testing"
	"time"

	"pgregory.net/rapid"

	"seata.apache.org/seata-go/pkg/protocol/branch"
	"seata.apache.org/seata-go/pkg/protocol/message"
	sgetty "seata.apache.org/seata-go/pkg/remoting/getty"
	"seata.apache.org/seata-go/pkg/remoting/rpc"
	"seata.apache.org/seata-go/pkg/rm/tcc"
	"seata.apache.org/seata-go/pkg/tm"

	"verifharness/boot"
	"verifharness/faketc"
	"verifharness/pt"
	"verifharness/stats"
)

var (
	ctx  = pt.New("C14")
	tc   *faketc.TC
	sess *faketc.Session
)

type Reply struct {
	Dup  int  `json:"dup,omitempty"`  // extra deliveries of the same reply
	Drop bool `json:"drop,omitempty"` // never delivered before the caller gives up (delivered late, after the timeout)
}

type Case struct {
	N       int     `json:"n"`
	Order   []int   `json:"order"`             // delivery order of the replies (caller indices)
	Replies []Reply `json:"replies"`           // per caller
	Collide []int   `json:"collide,omitempty"` // callers whose pending request id is reused by a coordinator-originated request
	Lose    bool    `json:"lose_session,omitempty"`
	// WriteFails: that many requests meet a failing write on a session that still looks open (the caller
	// gets the error; nothing of the request may stay behind)
	WriteFails int `json:"write_fails,omitempty"`
	// OnewayDrop: a further connection opens during the schedule and the announcement sent on it (a one-way
	// request with a future) is never answered; used only in schedules that wait for the 20 s timeout anyway
	OnewayDrop bool `json:"oneway_drop,omitempty"`
}

type stub struct{ name string }

func (a *stub) Prepare(ctx context.Context, params interface{}) (bool, error) { return true, nil }
func (a *stub) Commit(ctx context.Context, b *tm.BusinessActionContext) (bool, error) {
	return true, nil
}
func (a *stub) Rollback(ctx context.Context, b *tm.BusinessActionContext) (bool, error) {
	return true, nil
}
func (a *stub) GetActionName() string { return a.name }

const bidBase = 100000

type result struct {
	branchID int64
	err      error
	took     time.Duration
}

// lockQuery: every third caller sends a global lock query instead of a branch registration.
func lockQuery(k int) bool { return k%3 == 2 }

func parked() int {
	buf := make([]byte, 1<<22)
	n := runtime.Stack(buf, true)
	s := string(buf[:n])
	return strings.Count(s, "NotifyRpcMessageResponse") + strings.Count(s, "clientOnResponseProcessor).Process")
}

func runCase(c Case) *pt.Failure {
	return pt.Guard("C14/crash", func() *pt.Failure { return execute(c) })
}

func execute(c Case) *pt.Failure {
	tc.Reset()
	if sess == nil || sess.IsClosed() {
		sess = tc.Open()
		if !tc.WaitRegistered(sess, 5*time.Second) {
			return pt.Failf("C14/harness", "no TM registration")
		}
	}
	// the coordinator holds every BranchRegisterRequest; replies are driven by the schedule
	tc.Sticky(message.MessageTypeBranchRegister, &faketc.Action{Kind: faketc.NoReply})
	defer tc.Sticky(message.MessageTypeBranchRegister, nil)
	tc.Sticky(message.GlobalLockQueryRequest{}.GetTypeCode(), &faketc.Action{Kind: faketc.NoReply})
	defer tc.Sticky(message.GlobalLockQueryRequest{}.GetTypeCode(), nil)
	f0, m0 := sgetty.PendingFuturesForVerif()
	addr0 := sess.RemoteAddr()
	active0 := atomic.LoadInt32(&rpc.GetStatus(addr0).Active)
	if c.OnewayDrop {
		tc.Script(message.RegisterTMRequest{}.GetTypeCode(), faketc.Action{Kind: faketc.NoReply})
		extra := tc.OpenAt("10.9.9.9:8091")
		defer tc.Lose(extra)
		if !tc.WaitRegistered(extra, 5*time.Second) {
			return pt.Failf("C14/harness", "no announcement on the extra session")
		}
	}
	for i := 0; i < c.WriteFails; i++ {
		tc.Script(message.MessageTypeBranchRegister, faketc.Action{Kind: faketc.TransportError})
		t0 := time.Now()
		_, err := sgetty.GetGettyRemotingClient().SendSyncRequest(message.BranchRegisterRequest{Xid: "127.0.0.1:8091:6999", ResourceId: "write-fails", BranchType: branch.BranchTypeTCC})
		if err == nil {
			return pt.Failf("C14/write-failure-not-reported", "the write of request %d failed, SendSyncRequest returned nil", i)
		}
		if time.Since(t0) > 5*time.Second {
			return pt.Failf("C14/write-failure-slow", "the write failed at once, the caller got the error after %v", time.Since(t0))
		}
	}

	results := make([]result, c.N)
	var wg sync.WaitGroup
	for k := 0; k < c.N; k++ {
		wg.Add(1)
		go func(k int) {
			defer wg.Done()
			t0 := time.Now()
			reg := message.BranchRegisterRequest{Xid: fmt.Sprintf("127.0.0.1:8091:%d", 7000+k), ResourceId: fmt.Sprintf("caller-%d", k), BranchType: branch.BranchTypeTCC}
			var req interface{} = reg
			if lockQuery(k) {
				// another request kind with its own reply type: a global lock query
				req = message.GlobalLockQueryRequest{BranchRegisterRequest: reg}
			}
			resp, err := sgetty.GetGettyRemotingClient().SendSyncRequest(req)
			r := result{err: err, took: time.Since(t0)}
			switch b := resp.(type) {
			case message.BranchRegisterResponse:
				r.branchID = b.BranchId
			case message.GlobalLockQueryResponse:
				// (in-process delivery: the reply object arrives as it was sent, Msg carries the identity)
				fmt.Sscanf(b.Msg, "reply-%d", &r.branchID)
			default:
				if err == nil {
					r.err = fmt.Errorf("unexpected response %T", resp)
				}
			}
			results[k] = r
		}(k)
	}
	// wait until the coordinator holds all N requests
	ids := map[int]int32{}
	deadline := time.Now().Add(5 * time.Second)
	for len(ids) < c.N && time.Now().Before(deadline) {
		for _, e := range tc.Events() {
			if e.Dir != "c2s" {
				continue
			}
			var rid string
			switch b := e.Body.(type) {
			case message.BranchRegisterRequest:
				rid = b.ResourceId
			case message.GlobalLockQueryRequest:
				rid = b.ResourceId
			default:
				continue
			}
			var k int
			if n, _ := fmt.Sscanf(rid, "caller-%d", &k); n == 1 {
				ids[k] = e.ID
			}
		}
		time.Sleep(time.Millisecond)
	}
	if len(ids) < c.N {
		return pt.Failf("C14/harness", "coordinator saw %d of %d requests", len(ids), c.N)
	}
	// coordinator-originated requests reusing the message ids of pending client requests
	for _, k := range c.Collide {
		k %= c.N
		req := message.BranchCommitRequest{AbstractBranchEndRequest: message.AbstractBranchEndRequest{Xid: "127.0.0.1:8091:1", BranchId: 42, BranchType: branch.BranchTypeTCC, ResourceId: "c14-action"}}
		if _, ok := tc.RequestWithID(sess, ids[k], req, 3*time.Second); !ok {
			return pt.Failf("C14/phase-two-unanswered", "coordinator request with message id %d (equal to a pending client request id) was not answered", ids[k])
		}
	}
	if c.Lose {
		tc.Lose(sess)
	}
	reply := func(k int) message.RpcMessage {
		if lockQuery(k) {
			return message.RpcMessage{ID: ids[k], Type: message.GettyRequestTypeResponse, Codec: 1,
				Body: message.GlobalLockQueryResponse{AbstractTransactionResponse: message.AbstractTransactionResponse{AbstractResultMessage: message.AbstractResultMessage{ResultCode: message.ResultCodeSuccess, Msg: fmt.Sprintf("reply-%d", bidBase+k)}}, Lockable: true}}
		}
		return message.RpcMessage{ID: ids[k], Type: message.GettyRequestTypeResponse, Codec: 1,
			Body: message.BranchRegisterResponse{AbstractTransactionResponse: message.AbstractTransactionResponse{AbstractResultMessage: message.AbstractResultMessage{ResultCode: message.ResultCodeSuccess}}, BranchId: bidBase + int64(k)}}
	}
	anyDrop := false
	for _, k := range c.Order {
		if c.Replies[k].Drop || c.Lose {
			anyDrop = true
			continue
		}
		for i := 0; i <= c.Replies[k].Dup; i++ {
			tc.Deliver(sess, reply(k))
		}
	}
	if !tc.Quiesce(3 * time.Second) {
		return pt.Failf("C14/reply-blocks-processing", "a reply (duplicate or for a finished request) blocked the message-processing goroutine; parked=%d", parked())
	}
	done := make(chan struct{})
	go func() { wg.Wait(); close(done) }()
	limit := 5 * time.Second
	if anyDrop {
		limit = 40 * time.Second
	}
	select {
	case <-done:
	case <-time.After(limit):
		return pt.Failf("C14/caller-hangs", "callers did not return within %v", limit)
	}
	for k, r := range results {
		expectReply := !(c.Replies[k].Drop || c.Lose)
		switch {
		case r.err == nil && r.branchID != bidBase+int64(k):
			return pt.Failf("C14/cross-talk", "caller %d (message id %d) received branch id %d, i.e. the reply of caller %d", k, ids[k], r.branchID, r.branchID-bidBase)
		case expectReply && r.err != nil:
			sig := "C14/lost-reply"
			for _, x := range c.Collide {
				if x%c.N == k {
					sig = "C14/lost-reply/id-collision"
				}
			}
			return pt.Failf(sig, "caller %d (message id %d) got error %q after %v although its reply was delivered", k, ids[k], r.err, r.took)
		case !expectReply && r.err == nil:
			return pt.Failf("C14/phantom-reply", "caller %d returned success although its reply was never delivered", k)
		}
	}
	// stragglers: replies that arrive after their callers gave up
	if anyDrop {
		if c.Lose {
			sess = tc.Open()
			if !tc.WaitRegistered(sess, 5*time.Second) {
				return pt.Failf("C14/harness", "no TM registration after reconnect")
			}
		}
		for k := range c.Replies {
			if c.Replies[k].Drop || c.Lose {
				tc.Deliver(sess, reply(k))
			}
		}
		if !tc.Quiesce(3 * time.Second) {
			return pt.Failf("C14/straggler-blocks-processing", "a reply arriving after its caller timed out blocked the message-processing goroutine; parked=%d", parked())
		}
	}
	// a fresh request completes normally
	tc.Sticky(message.MessageTypeBranchRegister, nil)
	resp, err := sgetty.GetGettyRemotingClient().SendSyncRequest(message.BranchRegisterRequest{Xid: "127.0.0.1:8091:9", ResourceId: "fresh", BranchType: branch.BranchTypeTCC})
	if _, ok := resp.(message.BranchRegisterResponse); err != nil || !ok {
		return pt.Failf("C14/fresh-request", "a fresh request after the schedule failed: %v %T", err, resp)
	}
	f1, m1 := sgetty.PendingFuturesForVerif()
	// (the waiter of an unanswered one-way request gives up on the timer wheel's schedule, which may lag the
	// callers' own timeouts by a moment: look again for a while before calling it a leak)
	for i := 0; i < 300 && (f1 > f0 || m1 > m0); i++ {
		time.Sleep(10 * time.Millisecond)
		f1, m1 = sgetty.PendingFuturesForVerif()
	}
	if f1 > f0 || m1 > m0 {
		what := "C14/bookkeeping-leak"
		if anyDrop {
			what += "/after-timeout"
		} else if len(c.Collide) > 0 {
			what += "/after-phase-two-response"
		}
		return pt.Failf(what, "bookkeeping left behind: futures %d→%d, merged %d→%d", f0, f1, m0, m1)
	}
	// the per-coordinator count of requests in flight (what the least-active policy reads) is bookkeeping too
	active1 := atomic.LoadInt32(&rpc.GetStatus(addr0).Active)
	for i := 0; i < 100 && active1 != active0; i++ {
		time.Sleep(10 * time.Millisecond)
		active1 = atomic.LoadInt32(&rpc.GetStatus(addr0).Active)
	}
	if active1 != active0 {
		return pt.Failf("C14/bookkeeping-leak/active-count", "requests counted as in flight on %s: %d before the schedule, %d after every caller has returned", addr0, active0, active1)
	}
	// (a goroutine that is merely on its way out of the notification is not parked: look again for a while)
	p := parked()
	for i := 0; i < 100 && p > 0; i++ {
		time.Sleep(10 * time.Millisecond)
		p = parked()
	}
	if p > 0 {
		return pt.Failf("C14/parked-goroutine", "%d goroutine frames parked in response notification (for more than a second)", p)
	}
	return nil
}

func drawCase(t *rapid.T, allowDrop bool) Case {
	n := rapid.SampledFrom([]int{1, 2, 3, 4, 8, 16, 32}).Draw(t, "n")
	c := Case{N: n, Order: rapid.Permutation(seq(n)).Draw(t, "order"), Replies: make([]Reply, n)}
	for k := range c.Replies {
		if rapid.IntRange(0, 3).Draw(t, "dup?") == 0 {
			c.Replies[k].Dup = rapid.IntRange(1, 2).Draw(t, "dup")
		}
		if allowDrop && rapid.IntRange(0, 3).Draw(t, "drop?") == 0 {
			c.Replies[k].Drop = true
		}
	}
	nc := rapid.SampledFrom([]int{0, 0, 1, 2}).Draw(t, "collisions")
	for i := 0; i < nc; i++ {
		c.Collide = append(c.Collide, rapid.IntRange(0, n-1).Draw(t, "collide"))
	}
	if allowDrop && rapid.IntRange(0, 3).Draw(t, "lose?") == 0 {
		c.Lose = true
	}
	if rapid.IntRange(0, 3).Draw(t, "writeFails") == 0 {
		c.WriteFails = rapid.IntRange(1, 3).Draw(t, "nWriteFails")
	}
	if allowDrop {
		dropped := c.Lose
		for _, r := range c.Replies {
			dropped = dropped || r.Drop
		}
		c.OnewayDrop = dropped && rapid.Bool().Draw(t, "onewayDrop")
	}
	return c
}

func seq(n int) []int {
	s := make([]int, n)
	for i := range s {
		s[i] = i
	}
	return s
}

func record(test string, c Case) {
	reordered := false
	for i, k := range c.Order {
		if i != k {
			reordered = true
		}
	}
	dup, drop := false, false
	for _, r := range c.Replies {
		dup = dup || r.Dup > 0
		drop = drop || r.Drop
	}
	labels := []string{fmt.Sprintf("callers:%d", c.N)}
	for k, v := range map[string]bool{"reordered": reordered, "duplicate": dup, "drop": drop, "id-collision": len(c.Collide) > 0, "session-loss": c.Lose, "write-failure": c.WriteFails > 0} {
		if v {
			labels = append(labels, k)
		}
	}
	b, _ := json.Marshal(c)
	ctx.Rec.Case(test, (reordered || c.N == 1) && (dup || drop || len(c.Collide) > 0 || c.Lose), string(b), c, labels...)
}

// coldStart is the first thing a process does: the connection opens, the announcement sent on it is still
// unanswered (its reply is held back), and the first callers already send their requests; the replies arrive
// announcement first. Every caller must get its own reply.
func coldStart() *pt.Failure {
	const n = 4
	tc.Script(message.RegisterTMRequest{}.GetTypeCode(), faketc.Action{Delay: 250 * time.Millisecond})
	tc.Sticky(message.MessageTypeBranchRegister, &faketc.Action{Delay: 600 * time.Millisecond})
	defer tc.Sticky(message.MessageTypeBranchRegister, nil)
	sess = tc.Open()
	if !tc.WaitRegistered(sess, 5*time.Second) {
		return pt.Failf("C14/harness", "no TM registration")
	}
	type res struct {
		resp interface{}
		err  error
	}
	out := make([]res, n)
	var wg sync.WaitGroup
	for k := 0; k < n; k++ {
		wg.Add(1)
		go func(k int) {
			defer wg.Done()
			r, err := sgetty.GetGettyRemotingClient().SendSyncRequest(message.BranchRegisterRequest{
				Xid: fmt.Sprintf("127.0.0.1:8091:%d", 6000+k), ResourceId: fmt.Sprintf("cold-%d", k), BranchType: branch.BranchTypeTCC})
			out[k] = res{r, err}
		}(k)
	}
	done := make(chan struct{})
	go func() { wg.Wait(); close(done) }()
	select {
	case <-done:
	case <-time.After(30 * time.Second):
		return pt.Failf("C14/cold-start/caller-hangs", "a caller of the first requests of the process did not return within 30s")
	}
	byRes := map[string]int64{}
	for _, b := range tc.Branches() {
		byRes[b.ResourceID] = b.ID
	}
	for k, r := range out {
		b, ok := r.resp.(message.BranchRegisterResponse)
		switch {
		case r.err != nil:
			return pt.Failf("C14/cold-start/lost-reply", "caller %d of the first requests of the process got %v although its reply was sent", k, r.err)
		case !ok:
			return pt.Failf("C14/cold-start/foreign-reply", "caller %d sent a BranchRegisterRequest and received %T", k, r.resp)
		case b.BranchId != byRes[fmt.Sprintf("cold-%d", k)]:
			return pt.Failf("C14/cold-start/foreign-reply", "caller %d received branch id %d, the coordinator registered %d for it", k, b.BranchId, byRes[fmt.Sprintf("cold-%d", k)])
		}
	}
	return nil
}

var (
	coldFailure *pt.Failure
	coldPending = true
)

func TestMain(m *testing.M) {
	boot.Init("")
	tc = faketc.New("")
	coldFailure = pt.Guard("C14/crash", coldStart)
	if sess == nil {
		panic("no session")
	}
	if _, err := tcc.NewTCCServiceProxy(&stub{name: "c14-action"}); err != nil {
		panic(err)
	}
	ctx.Rec.SetRule("generator: N ∈ {1,2,3,4,8,16,32} concurrent SendSyncRequest callers (BranchRegister; the reply carries the caller's identity as branch id); the coordinator holds all requests, then replies in a generated permutation with per-reply duplication (0–2 extra copies) and drops (reply withheld until the caller's 20 s timeout, then delivered as a straggler); 0–2 coordinator-originated BranchCommit requests that reuse the message id of a pending client request; optional session loss while requests are pending. Oracle: own reply or error, never another caller's; dropped ⇒ error; deliveries never block the processing goroutine (bounded wait + stack scan); fresh request works afterwards; futures/merge maps back to their size (hook H2). Non-trivial: reordering (or N=1) plus one of {duplicate, drop, id collision, session loss}. Distinct by the whole schedule.")
	ctx.Rec.Assume("replies are delivered one goroutine per package like getty's task pool", "timeouts are the real 20 s RpcRequestTimeout; schedules with drops are therefore few")
	ctx.RunWitnesses(func(f stats.Finding) *pt.Failure {
		var c Case
		if err := json.Unmarshal(f.Witness, &c); err != nil {
			return nil
		}
		return runCase(c)
	})
	ctx.Main(m)
}

func TestPropSchedulesNoDrop(t *testing.T) {
	if coldPending {
		coldPending = false
		c := Case{N: 4}
		ctx.Rec.Case("cold-start", true, "cold-start", c, "cold-start")
		ctx.Judge(t, "cold-start", coldFailure, c)
	}
	ctx.Check(t, func(rt *rapid.T) {
		c := drawCase(rt, false)
		record("no-drop", c)
		ctx.Judge(rt, "no-drop", runCase(c), c)
	})
}

// TestPropSchedulesWithDrop: each case costs one 20 s timeout; the number of cases is capped by C14_DROPS.
func TestPropSchedulesWithDrop(t *testing.T) {
	limit, _ := strconv.Atoi(os.Getenv("C14_DROPS"))
	if limit == 0 {
		limit = 1
	}
	n := 0
	ctx.Check(t, func(rt *rapid.T) {
		c := drawCase(rt, true)
		anyDrop := c.Lose
		for _, r := range c.Replies {
			anyDrop = anyDrop || r.Drop
		}
		if !anyDrop {
			c.Replies[0].Drop = true
		}
		if n++; n > limit {
			return
		}
		record("with-drop", c)
		ctx.Judge(rt, "with-drop", runCase(c), c)
	})
}

func TestPropReplaySaved(t *testing.T) {
	ctx.ReplayAll(t, func(v *stats.Violation) *pt.Failure {
		var c Case
		if err := json.Unmarshal(v.Case, &c); err != nil {
			return pt.Failf("C14/replay", "bad case: %v", err)
		}
		return runCase(c)
	})
}

func TestReplay(t *testing.T) {
	var c Case
	v, ok := pt.Replay(t, &c)
	if !ok {
		t.Skip("no VERIF_REPLAY_FILE")
	}
	defer ctx.Rec.Flush()
	if v.Test == "cold-start" {
		// the cold start is what this very process did first (TestMain): its outcome is the replay
		ctx.Rec.Case("replay", true, "cold-start", c, "cold-start")
		ctx.Judge(t, v.Test, coldFailure, c)
		return
	}
	record("replay", c)
	ctx.Judge(t, v.Test, runCase(c), c)
}
