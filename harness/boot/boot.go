// Package boot initialises the real seata-go client once per process, without sockets.
package boot

import (
	"os"
	"path/filepath"
	"sync"

	"seata.apache.org/seata-go/pkg/client"
	"seata.apache.org/seata-go/pkg/util/log"
)

const conf = `seata:
  enabled: true
  application-id: verif-app
  tx-service-group: default_tx_group
  client:
    rm:
      lock:
        retry-interval: 5ms
        retry-times: 3
    xa:
      xa_two_phase_hold_time: 2562047h
    tm:
      commit-retry-count: 3
      rollback-retry-count: 3
      default-global-transaction-timeout: 60s
    undo:
      data-validation: true
      log-serialization: json
      log-table: undo_log
      only-care-update-columns: true
      compress:
        enable: false
        type: None
        threshold: 64k
  service:
    vgroup-mapping:
      default_tx_group: default
    grouplist:
      default: ""
  registry:
    type: file
    file:
      name: seatago.yml
  getty:
    reconnect-interval: 0
    connection-num: 1
    load-balance-type: %LB%
    session:
      session-name: verif
      max-msg-len: 16498688
      cron-period: 1s
`

var once sync.Once

// Init runs client.InitPath with a generated config (empty grouplist: no connection is attempted).
// lb is the load-balance type ("" = XID).
func Init(lb string) {
	once.Do(func() {
		if lb == "" {
			lb = "XID"
		}
		dir, err := os.MkdirTemp("", "verif-boot")
		if err != nil {
			panic(err)
		}
		p := filepath.Join(dir, "conf.yml")
		txt := conf
		txt = replace(txt, "%LB%", lb)
		if err := os.WriteFile(p, []byte(txt), 0o644); err != nil {
			panic(err)
		}
		cwd, _ := os.Getwd()
		_ = os.Chdir(dir) // the client's logger writes relative to cwd
		client.InitPath(p)
		_ = os.Chdir(cwd)
		if os.Getenv("VERIF_CLIENT_LOG") == "" {
			log.SetLogger(nopLogger{}) // the client logs every message with %#v at info level
		}
	})
}

func replace(s, old, new string) string {
	for i := 0; i+len(old) <= len(s); i++ {
		if s[i:i+len(old)] == old {
			return s[:i] + new + s[i+len(old):]
		}
	}
	return s
}

type nopLogger struct{}

func (nopLogger) Debug(v ...interface{})                 {}
func (nopLogger) Debugf(format string, v ...interface{}) {}
func (nopLogger) Info(v ...interface{})                  {}
func (nopLogger) Infof(format string, v ...interface{})  {}
func (nopLogger) Warn(v ...interface{})                  {}
func (nopLogger) Warnf(format string, v ...interface{})  {}
func (nopLogger) Error(v ...interface{})                 {}
func (nopLogger) Errorf(format string, v ...interface{}) {}
func (nopLogger) Panic(v ...interface{})                 {}
func (nopLogger) Panicf(format string, v ...interface{}) {}
func (nopLogger) Fatal(v ...interface{})                 {}
func (nopLogger) Fatalf(format string, v ...interface{}) {}
