// Package jclock is the single logical clock shared by the database journal (memsql) and the
// coordinator journal (faketc): "A precedes B" is a comparison of two integers.
package jclock

import "sync/atomic"

var now int64

// Tick returns the next logical timestamp.
func Tick() int64 { return atomic.AddInt64(&now, 1) }

// Now returns the latest timestamp handed out.
func Now() int64 { return atomic.LoadInt64(&now) }
