// Package faketc is an in-process stand-in for the Seata coordinator (TC). It is attached to the
// real client at the getty seam: a fake getty.Session receives what the client writes
// (Session.WritePkg) and replies are injected through the client's event listener
// (OnOpen/OnMessage/OnClose), one goroutine per package like getty's task pool.
package faketc

import (
	"fmt"
	"sort"
	"strings"
	"sync"
	"sync/atomic"
	"time"

	getty "github.com/apache/dubbo-getty"

	"seata.apache.org/seata-go/pkg/protocol/branch"
	"seata.apache.org/seata-go/pkg/protocol/message"
	sgetty "seata.apache.org/seata-go/pkg/remoting/getty"

	"verifharness/jclock"
)

// Kind of scripted reaction to one client message.
type Kind int

const (
	Default        Kind = iota // behave like a healthy coordinator
	Fail                       // reply with ResultCodeFailed (Msg = Action.Msg)
	TransportError             // WritePkg returns an error (nothing reaches the coordinator)
	NoReply                    // message is received, no reply is sent
	Custom                     // reply with Action.Body
)

// Action is one scripted reaction. Before runs (outside the lock) before the reaction; Delay is
// slept before the reply is delivered; Dup > 0 delivers the reply 1+Dup times.
type Action struct {
	Kind   Kind
	Msg    string
	Body   interface{}
	Delay  time.Duration
	Dup    int
	Before func(m message.RpcMessage)
}

// Event is one entry of the coordinator journal.
type Event struct {
	Seq     int64 // logical clock (jclock)
	Dir     string // "c2s" client->TC, "s2c" TC->client, "err" transport error injected, "open"/"close"
	Session int
	ID      int32
	Type    message.GettyRequestType
	Body    interface{}
}

func (e Event) String() string {
	return fmt.Sprintf("#%d %s s%d id=%d %s", e.Seq, e.Dir, e.Session, e.ID, Describe(e.Body))
}

// Describe renders a message body briefly.
func Describe(b interface{}) string {
	s := fmt.Sprintf("%T%+v", b, b)
	s = strings.TrimPrefix(s, "message.")
	if len(s) > 300 {
		s = s[:300] + "…"
	}
	return s
}

// Branch is a branch the coordinator has registered.
type Branch struct {
	ID         int64
	Xid        string
	Type       branch.BranchType
	ResourceID string
	LockKey    string
	AppData    []byte
	RegSeq     int64 // clock of the register reply
	Session    int
	Reports    []branch.BranchStatus
}

// Global is a global transaction known to the coordinator.
type Global struct {
	Xid      string
	Name     string
	Begins   int
	Commits  int
	Rollback int
	Status   message.GlobalStatus
}

// TC is the fake coordinator.
type TC struct {
	Addr string // ip:port used for xids and as RemoteAddr of sessions

	mu       sync.Mutex
	events   []Event
	sessions []*Session
	scripts  map[message.MessageType][]Action
	sticky   map[message.MessageType]*Action // applies when the queue is empty
	globals  map[string]*Global
	order    []string
	branches map[int64]*Branch
	locks    map[string]string // resource|table:pk -> xid
	nextXid  int64
	nextBr   int64
	tcMsgID  int32
	waiters  map[int32]chan message.RpcMessage
	resps    []message.RpcMessage // responses to TC-originated requests, in arrival order
	// LockMode: when true BranchRegister/LockQuery are answered from the lock table.
	LockMode bool
	// OnClient, when set, observes every client->TC message (after journaling, outside the lock).
	OnClient func(s *Session, m message.RpcMessage)
	inflight int64 // deliveries that have not returned yet
}

func New(addr string) *TC {
	if addr == "" {
		addr = "127.0.0.1:8091"
	}
	tc := &TC{Addr: addr}
	tc.Reset()
	return tc
}

// Reset forgets journal, scripts, transactions, branches and locks (sessions stay).
func (tc *TC) Reset() {
	tc.mu.Lock()
	defer tc.mu.Unlock()
	tc.events = nil
	tc.scripts = map[message.MessageType][]Action{}
	tc.sticky = map[message.MessageType]*Action{}
	tc.globals = map[string]*Global{}
	tc.order = nil
	tc.branches = map[int64]*Branch{}
	tc.locks = map[string]string{}
	tc.waiters = map[int32]chan message.RpcMessage{}
	tc.resps = nil
	if tc.nextXid == 0 {
		tc.nextXid = 1000
		tc.nextBr = 5000
		tc.tcMsgID = 1 << 20
	}
}

// SetIDs sets the next xid suffix, branch id and TC message id (for collision experiments).
func (tc *TC) SetIDs(xid, br int64, msgID int32) {
	tc.mu.Lock()
	defer tc.mu.Unlock()
	if xid > 0 {
		tc.nextXid = xid
	}
	if br != 0 {
		tc.nextBr = br
	}
	if msgID != 0 {
		tc.tcMsgID = msgID
	}
}

// Script queues reactions for the next messages of a type.
func (tc *TC) Script(t message.MessageType, a ...Action) {
	tc.mu.Lock()
	tc.scripts[t] = append(tc.scripts[t], a...)
	tc.mu.Unlock()
}

// Sticky sets the reaction used whenever the queue of a type is empty (nil restores Default).
func (tc *TC) Sticky(t message.MessageType, a *Action) {
	tc.mu.Lock()
	if a == nil {
		delete(tc.sticky, t)
	} else {
		tc.sticky[t] = a
	}
	tc.mu.Unlock()
}

func (tc *TC) log(e Event) int64 {
	e.Seq = jclock.Tick()
	tc.events = append(tc.events, e)
	return e.Seq
}

// Events returns a copy of the journal.
func (tc *TC) Events() []Event {
	tc.mu.Lock()
	defer tc.mu.Unlock()
	return append([]Event(nil), tc.events...)
}

// ClientMessages returns the bodies the client sent, filtered by a predicate on the body.
func (tc *TC) ClientMessages(pred func(b interface{}) bool) []Event {
	var out []Event
	for _, e := range tc.Events() {
		if e.Dir == "c2s" && (pred == nil || pred(e.Body)) {
			out = append(out, e)
		}
	}
	return out
}

func (tc *TC) Branches() []*Branch {
	tc.mu.Lock()
	defer tc.mu.Unlock()
	var out []*Branch
	for _, b := range tc.branches {
		c := *b
		out = append(out, &c)
	}
	sort.Slice(out, func(i, j int) bool { return out[i].RegSeq < out[j].RegSeq })
	return out
}

func (tc *TC) Globals() []*Global {
	tc.mu.Lock()
	defer tc.mu.Unlock()
	var out []*Global
	for _, x := range tc.order {
		c := *tc.globals[x]
		out = append(out, &c)
	}
	return out
}

// Locks returns a copy of the lock table (resource|table:pk -> xid).
func (tc *TC) Locks() map[string]string {
	tc.mu.Lock()
	defer tc.mu.Unlock()
	m := map[string]string{}
	for k, v := range tc.locks {
		m[k] = v
	}
	return m
}

// ReleaseLocks drops the global locks of xid (what a coordinator does when the global tx ends).
func (tc *TC) ReleaseLocks(xid string) {
	tc.mu.Lock()
	for k, v := range tc.locks {
		if v == xid {
			delete(tc.locks, k)
		}
	}
	tc.mu.Unlock()
}

// SplitLockKey parses "table:pk1,pk2;table2:pk" into "table:pk" row keys (table upper-cased).
func SplitLockKey(lockKey string) []string {
	var out []string
	for _, part := range strings.Split(lockKey, ";") {
		if part == "" {
			continue
		}
		i := strings.Index(part, ":")
		if i < 0 {
			out = append(out, strings.ToUpper(part)+":")
			continue
		}
		tbl := strings.ToUpper(part[:i])
		for _, pk := range strings.Split(part[i+1:], ",") {
			out = append(out, tbl+":"+pk)
		}
	}
	return out
}

// ---- sessions --------------------------------------------------------------------------------

// Session is a fake getty.Session.
type Session struct {
	getty.Session // nil: any method not overridden panics, which is what we want to notice
	tc     *TC
	N      int
	addr   string
	closed int32
	attrs  sync.Map
}

func (s *Session) IsClosed() bool     { return atomic.LoadInt32(&s.closed) == 1 }
func (s *Session) RemoteAddr() string { return s.addr }
func (s *Session) LocalAddr() string  { return "127.0.0.1:50000" }
func (s *Session) Stat() string       { return fmt.Sprintf("fake-session-%d[%s]", s.N, s.addr) }
func (s *Session) Close()             { atomic.StoreInt32(&s.closed, 1) }
func (s *Session) GetAttribute(k interface{}) interface{} {
	v, _ := s.attrs.Load(k)
	return v
}
func (s *Session) SetAttribute(k, v interface{}) { s.attrs.Store(k, v) }
func (s *Session) RemoveAttribute(k interface{}) { s.attrs.Delete(k) }

// WritePkg is what the client calls to send a message to the coordinator.
func (s *Session) WritePkg(pkg interface{}, timeout time.Duration) (int, int, error) {
	m, ok := pkg.(message.RpcMessage)
	if !ok {
		return 0, 0, fmt.Errorf("faketc: unexpected package %T", pkg)
	}
	return s.tc.onClient(s, m)
}

// Open creates a session and announces it to the client (OnOpen). The client answers with an
// asynchronous RegisterTMRequest.
func (tc *TC) Open() *Session {
	tc.mu.Lock()
	s := &Session{tc: tc, N: len(tc.sessions) + 1, addr: tc.Addr}
	tc.sessions = append(tc.sessions, s)
	tc.log(Event{Dir: "open", Session: s.N})
	tc.mu.Unlock()
	if err := sgetty.GetGettyClientHandlerInstance().OnOpen(s); err != nil {
		panic(err)
	}
	return s
}

// OpenAt is Open with a specific remote address.
func (tc *TC) OpenAt(addr string) *Session {
	tc.mu.Lock()
	s := &Session{tc: tc, N: len(tc.sessions) + 1, addr: addr}
	tc.sessions = append(tc.sessions, s)
	tc.log(Event{Dir: "open", Session: s.N})
	tc.mu.Unlock()
	if err := sgetty.GetGettyClientHandlerInstance().OnOpen(s); err != nil {
		panic(err)
	}
	return s
}

// Lose closes the connection from the network side: the session is closed and the client is told (OnClose).
func (tc *TC) Lose(s *Session) {
	s.Close()
	tc.mu.Lock()
	tc.log(Event{Dir: "close", Session: s.N})
	tc.mu.Unlock()
	sgetty.GetGettyClientHandlerInstance().OnClose(s)
}

// WaitRegistered waits until the client's RegisterTMRequest of session s was seen.
func (tc *TC) WaitRegistered(s *Session, d time.Duration) bool {
	deadline := time.Now().Add(d)
	for time.Now().Before(deadline) {
		for _, e := range tc.Events() {
			if e.Dir == "c2s" && e.Session == s.N {
				if _, ok := e.Body.(message.RegisterTMRequest); ok {
					return true
				}
			}
		}
		time.Sleep(time.Millisecond)
	}
	return false
}

// ---- client -> TC ----------------------------------------------------------------------------

var okResp = message.AbstractTransactionResponse{AbstractResultMessage: message.AbstractResultMessage{ResultCode: message.ResultCodeSuccess}}

func failResp(msg string) message.AbstractTransactionResponse {
	return message.AbstractTransactionResponse{AbstractResultMessage: message.AbstractResultMessage{ResultCode: message.ResultCodeFailed, Msg: msg}}
}

func (tc *TC) nextAction(t message.MessageType) Action {
	if q := tc.scripts[t]; len(q) > 0 {
		a := q[0]
		tc.scripts[t] = q[1:]
		return a
	}
	if a := tc.sticky[t]; a != nil {
		return *a
	}
	return Action{}
}

func (tc *TC) onClient(s *Session, m message.RpcMessage) (int, int, error) {
	if s.IsClosed() {
		return 0, 0, fmt.Errorf("faketc: session closed")
	}
	aware, isMsg := m.Body.(message.MessageTypeAware)
	tc.mu.Lock()
	var act Action
	if isMsg {
		act = tc.nextAction(aware.GetTypeCode())
	}
	if act.Kind == TransportError {
		tc.log(Event{Dir: "err", Session: s.N, ID: m.ID, Type: m.Type, Body: m.Body})
		tc.mu.Unlock()
		if act.Before != nil {
			act.Before(m)
		}
		return 0, 0, fmt.Errorf("faketc: injected transport error")
	}
	tc.log(Event{Dir: "c2s", Session: s.N, ID: m.ID, Type: m.Type, Body: m.Body})
	// responses to coordinator-originated requests
	if m.Type == message.GettyRequestTypeResponse {
		tc.resps = append(tc.resps, m)
		if ch := tc.waiters[m.ID]; ch != nil {
			select {
			case ch <- m:
			default:
			}
		}
		tc.mu.Unlock()
		if tc.OnClient != nil {
			tc.OnClient(s, m)
		}
		return 0, 0, nil
	}
	if m.Type == message.GettyRequestTypeHeartbeatRequest {
		tc.mu.Unlock()
		tc.deliver(s, message.RpcMessage{ID: m.ID, Type: message.GettyRequestTypeHeartbeatResponse, Codec: m.Codec, Body: message.HeartBeatMessagePong}, 0, 0)
		return 0, 0, nil
	}
	var reply interface{}
	switch act.Kind {
	case NoReply:
	case Custom:
		reply = act.Body
	default:
		reply = tc.react(s, m.Body, act)
	}
	tc.mu.Unlock()
	if tc.OnClient != nil {
		tc.OnClient(s, m)
	}
	if act.Before != nil {
		act.Before(m)
	}
	if reply != nil {
		tc.deliver(s, message.RpcMessage{ID: m.ID, Type: message.GettyRequestTypeResponse, Codec: m.Codec, Body: reply}, act.Delay, act.Dup)
	}
	return 0, 0, nil
}

// react computes the healthy (or failing) reply and updates the coordinator state. Locked.
func (tc *TC) react(s *Session, body interface{}, act Action) interface{} {
	fail := act.Kind == Fail
	tx := okResp
	if fail {
		tx = failResp(act.Msg)
	}
	switch b := body.(type) {
	case message.RegisterTMRequest:
		return message.RegisterTMResponse{AbstractIdentifyResponse: message.AbstractIdentifyResponse{Identified: !fail, Version: "1.5.2"}}
	case message.RegisterRMRequest:
		return message.RegisterRMResponse{AbstractIdentifyResponse: message.AbstractIdentifyResponse{Identified: !fail, Version: "1.5.2"}}
	case message.GlobalBeginRequest:
		if fail {
			return message.GlobalBeginResponse{AbstractTransactionResponse: tx}
		}
		tc.nextXid++
		xid := fmt.Sprintf("%s:%d", s.addr, tc.nextXid)
		tc.globals[xid] = &Global{Xid: xid, Name: b.TransactionName, Begins: 1, Status: message.GlobalStatusBegin}
		tc.order = append(tc.order, xid)
		return message.GlobalBeginResponse{AbstractTransactionResponse: tx, Xid: xid}
	case message.GlobalCommitRequest:
		g := tc.global(b.Xid)
		g.Commits++
		st := message.GlobalStatusCommitted
		if fail {
			st = message.GlobalStatusCommitFailed
		} else {
			g.Status = st
		}
		return message.GlobalCommitResponse{AbstractGlobalEndResponse: message.AbstractGlobalEndResponse{AbstractTransactionResponse: tx, GlobalStatus: st}}
	case message.GlobalRollbackRequest:
		g := tc.global(b.Xid)
		g.Rollback++
		st := message.GlobalStatusRollbacked
		if fail {
			st = message.GlobalStatusRollbackFailed
		} else {
			g.Status = st
		}
		return message.GlobalRollbackResponse{AbstractGlobalEndResponse: message.AbstractGlobalEndResponse{AbstractTransactionResponse: tx, GlobalStatus: st}}
	case message.GlobalStatusRequest:
		return message.GlobalStatusResponse{AbstractGlobalEndResponse: message.AbstractGlobalEndResponse{AbstractTransactionResponse: tx, GlobalStatus: tc.global(b.Xid).Status}}
	case message.GlobalReportRequest:
		return message.GlobalReportResponse{AbstractGlobalEndResponse: message.AbstractGlobalEndResponse{AbstractTransactionResponse: tx, GlobalStatus: b.GlobalStatus}}
	case message.BranchRegisterRequest:
		if fail {
			return message.BranchRegisterResponse{AbstractTransactionResponse: tx}
		}
		if tc.LockMode && b.BranchType == branch.BranchTypeAT {
			for _, k := range SplitLockKey(b.LockKey) {
				if owner, ok := tc.locks[b.ResourceId+"|"+k]; ok && owner != b.Xid {
					return message.BranchRegisterResponse{AbstractTransactionResponse: failResp("LockKeyConflict: " + k + " held by " + owner)}
				}
			}
			for _, k := range SplitLockKey(b.LockKey) {
				tc.locks[b.ResourceId+"|"+k] = b.Xid
			}
		}
		tc.nextBr++
		br := &Branch{ID: tc.nextBr, Xid: b.Xid, Type: b.BranchType, ResourceID: b.ResourceId, LockKey: b.LockKey, AppData: b.ApplicationData, Session: s.N}
		br.RegSeq = jclock.Tick()
		tc.branches[br.ID] = br
		return message.BranchRegisterResponse{AbstractTransactionResponse: tx, BranchId: br.ID}
	case message.BranchReportRequest:
		if br := tc.branches[b.BranchId]; br != nil && !fail {
			br.Reports = append(br.Reports, b.Status)
		}
		return message.BranchReportResponse{AbstractTransactionResponse: tx}
	case message.GlobalLockQueryRequest:
		lockable := !fail
		if tc.LockMode && lockable {
			for _, k := range SplitLockKey(b.LockKey) {
				if owner, ok := tc.locks[b.ResourceId+"|"+k]; ok && owner != b.Xid {
					lockable = false
				}
			}
		}
		return message.GlobalLockQueryResponse{AbstractTransactionResponse: tx, Lockable: lockable}
	}
	return nil
}

func (tc *TC) global(xid string) *Global {
	g := tc.globals[xid]
	if g == nil {
		g = &Global{Xid: xid}
		tc.globals[xid] = g
		tc.order = append(tc.order, xid)
	}
	return g
}

// deliver hands a package to the client like getty's task pool: its own goroutine.
func (tc *TC) deliver(s *Session, m message.RpcMessage, delay time.Duration, dup int) {
	for i := 0; i <= dup; i++ {
		atomic.AddInt64(&tc.inflight, 1)
		go func() {
			defer atomic.AddInt64(&tc.inflight, -1)
			if delay > 0 {
				time.Sleep(delay)
			}
			tc.mu.Lock()
			tc.log(Event{Dir: "s2c", Session: s.N, ID: m.ID, Type: m.Type, Body: m.Body})
			tc.mu.Unlock()
			defer func() {
				// getty's task-pool worker recovers a panicking task; it is journaled here
				if r := recover(); r != nil {
					tc.mu.Lock()
					tc.log(Event{Dir: "panic", Session: s.N, ID: m.ID, Type: m.Type, Body: fmt.Sprint(r)})
					tc.mu.Unlock()
				}
			}()
			sgetty.GetGettyClientHandlerInstance().OnMessage(s, m)
		}()
	}
}

// Deliver injects an arbitrary package (used by schedule-driven properties).
func (tc *TC) Deliver(s *Session, m message.RpcMessage) { tc.deliver(s, m, 0, 0) }

// DeliverSync injects a package on the caller's goroutine and returns when OnMessage returns.
func (tc *TC) DeliverSync(s *Session, m message.RpcMessage) {
	tc.mu.Lock()
	tc.log(Event{Dir: "s2c", Session: s.N, ID: m.ID, Type: m.Type, Body: m.Body})
	tc.mu.Unlock()
	sgetty.GetGettyClientHandlerInstance().OnMessage(s, m)
}

// ---- TC -> client (phase two) ----------------------------------------------------------------

// Request sends a coordinator-originated request and waits for the client's response.
// ok=false when no response arrived within d.
func (tc *TC) Request(s *Session, body interface{}, d time.Duration) (resp message.RpcMessage, ok bool) {
	tc.mu.Lock()
	tc.tcMsgID++
	id := tc.tcMsgID
	tc.mu.Unlock()
	return tc.RequestWithID(s, id, body, d)
}

func (tc *TC) RequestWithID(s *Session, id int32, body interface{}, d time.Duration) (resp message.RpcMessage, ok bool) {
	ch := make(chan message.RpcMessage, 4)
	tc.mu.Lock()
	tc.waiters[id] = ch
	tc.mu.Unlock()
	// the request is processed on its own goroutine (like a task-pool worker); when the processor
	// returns without having written a response, there will be none: no need to wait out d
	m := message.RpcMessage{ID: id, Type: message.GettyRequestTypeRequestSync, Codec: 1, Body: body}
	done := make(chan struct{})
	atomic.AddInt64(&tc.inflight, 1)
	go func() {
		defer atomic.AddInt64(&tc.inflight, -1)
		defer close(done)
		tc.mu.Lock()
		tc.log(Event{Dir: "s2c", Session: s.N, ID: m.ID, Type: m.Type, Body: m.Body})
		tc.mu.Unlock()
		defer func() {
			if r := recover(); r != nil {
				tc.mu.Lock()
				tc.log(Event{Dir: "panic", Session: s.N, ID: m.ID, Type: m.Type, Body: fmt.Sprint(r)})
				tc.mu.Unlock()
			}
		}()
		sgetty.GetGettyClientHandlerInstance().OnMessage(s, m)
	}()
	select {
	case resp = <-ch:
		ok = true
	case <-done:
		select {
		case resp = <-ch:
			ok = true
		default:
		}
	case <-time.After(d):
	}
	tc.mu.Lock()
	delete(tc.waiters, id)
	tc.mu.Unlock()
	return
}

// BranchRollback asks the client to roll a branch back; returns the reported status.
func (tc *TC) BranchRollback(s *Session, b *Branch, d time.Duration) (branch.BranchStatus, *message.BranchRollbackResponse) {
	req := message.BranchRollbackRequest{AbstractBranchEndRequest: message.AbstractBranchEndRequest{Xid: b.Xid, BranchId: b.ID, BranchType: b.Type, ResourceId: b.ResourceID, ApplicationData: b.AppData}}
	m, ok := tc.Request(s, req, d)
	if !ok {
		return branch.BranchStatusUnknown, nil
	}
	r, ok := m.Body.(message.BranchRollbackResponse)
	if !ok {
		return branch.BranchStatusUnknown, nil
	}
	return r.BranchStatus, &r
}

// BranchCommit asks the client to commit a branch; returns the reported status.
func (tc *TC) BranchCommit(s *Session, b *Branch, d time.Duration) (branch.BranchStatus, *message.BranchCommitResponse) {
	req := message.BranchCommitRequest{AbstractBranchEndRequest: message.AbstractBranchEndRequest{Xid: b.Xid, BranchId: b.ID, BranchType: b.Type, ResourceId: b.ResourceID, ApplicationData: b.AppData}}
	m, ok := tc.Request(s, req, d)
	if !ok {
		return branch.BranchStatusUnknown, nil
	}
	r, ok := m.Body.(message.BranchCommitResponse)
	if !ok {
		return branch.BranchStatusUnknown, nil
	}
	return r.BranchStatus, &r
}

// Responses returns the responses the client wrote to coordinator-originated requests.
func (tc *TC) Responses() []message.RpcMessage {
	tc.mu.Lock()
	defer tc.mu.Unlock()
	return append([]message.RpcMessage(nil), tc.resps...)
}

// Quiesce waits until every delivery goroutine has returned (bounded).
func (tc *TC) Quiesce(d time.Duration) bool {
	deadline := time.Now().Add(d)
	for {
		if atomic.LoadInt64(&tc.inflight) == 0 {
			return true
		}
		if time.Now().After(deadline) {
			return false
		}
		time.Sleep(200 * time.Microsecond)
	}
}
