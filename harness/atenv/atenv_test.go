package atenv

import (
	"context"
	"errors"
	"fmt"
	"testing"
	"time"

	"seata.apache.org/seata-go/pkg/protocol/branch"
)

func TestSmokeATRollback(t *testing.T) {
	e := Get(Options{})
	e.ResetCase()
	UndoConfig("json", "None", true, true)
	n := NextCase()
	tbl := TableName(n, 1)
	if _, err := e.Bare.Exec("CREATE TABLE " + tbl + " (id BIGINT PRIMARY KEY, name VARCHAR(32), age INT)"); err != nil {
		t.Fatal(err)
	}
	if _, err := e.Bare.Exec("INSERT INTO " + tbl + " VALUES (1, 'test', 5), (2, 'b', 6)"); err != nil {
		t.Fatal(err)
	}
	before := e.Srv.Snapshot(Schema, tbl)
	xid, err := Global("smoke", func(ctx context.Context) error {
		r, err := e.AT.ExecContext(ctx, "UPDATE "+tbl+" SET name = ?, age = age + 1 WHERE id = ?", "abcd", 1)
		if err != nil {
			return err
		}
		if n, _ := r.RowsAffected(); n != 1 {
			return fmt.Errorf("affected %d", n)
		}
		if _, err := e.AT.ExecContext(ctx, "INSERT INTO "+tbl+" (id, name, age) VALUES (?, ?, ?)", 3, "c", 1); err != nil {
			return err
		}
		if _, err := e.AT.ExecContext(ctx, "DELETE FROM "+tbl+" WHERE id = ?", 2); err != nil {
			return err
		}
		return errors.New("business failure")
	})
	t.Logf("xid=%s err=%v", xid, err)
	for _, en := range e.Srv.Journal() {
		t.Log(en.String())
	}
	bs := e.TC.Branches()
	if len(bs) != 3 {
		t.Fatalf("branches: %d", len(bs))
	}
	for i := len(bs) - 1; i >= 0; i-- {
		st, resp := e.TC.BranchRollback(e.Sess, bs[i], 5*time.Second)
		t.Logf("rollback branch %d lock=%q -> %v %v", bs[i].ID, bs[i].LockKey, st, resp != nil)
		if st != branch.BranchStatusPhasetwoRollbacked {
			for _, en := range e.Srv.Journal() {
				t.Log(en.String())
			}
			t.Fatalf("status %v", st)
		}
	}
	after := e.Srv.Snapshot(Schema, tbl)
	if fmt.Sprint(before) != fmt.Sprint(after) {
		t.Fatalf("not restored:\n before %v\n after  %v", before, after)
	}
	if rows := e.UndoRows(xid); len(rows) != 0 {
		t.Fatalf("undo rows left: %v", rows)
	}
}
