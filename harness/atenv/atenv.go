// Package atenv wires the real seata-go client to the two stand-ins: the in-memory MySQL server
// (memsql) behind the AT/XA proxy drivers (hook H1) and the fake coordinator (faketc).
package atenv

import (
	"context"
	"database/sql"
	"fmt"
	"sync"
	"sync/atomic"
	"time"

	seatasql "seata.apache.org/seata-go/pkg/datasource/sql"
	"seata.apache.org/seata-go/pkg/datasource/sql/undo"
	"seata.apache.org/seata-go/pkg/tm"

	"verifharness/boot"
	"verifharness/faketc"
	"verifharness/memsql"
)

const (
	ATDriver = "seata-at-verif"
	XADriver = "seata-xa-verif"
	Addr     = "127.0.0.1:3306"
	Schema   = "db"
)

// UndoLogDDL is the undo_log table of the repository's testdata/sql/undo_log.sql.
const UndoLogDDL = "CREATE TABLE `undo_log` (`id` bigint(20) NOT NULL AUTO_INCREMENT, `branch_id` bigint(20) NOT NULL, `xid` varchar(100) NOT NULL, `context` varchar(128) NOT NULL, `rollback_info` longblob NOT NULL, `log_status` int(11) NOT NULL, `log_created` datetime(6) NOT NULL, `log_modified` datetime(6) NOT NULL, `ext` varchar(100) DEFAULT NULL, PRIMARY KEY (`id`), UNIQUE KEY `ux_undo_log` (`xid`,`branch_id`)) ENGINE=InnoDB DEFAULT CHARSET=utf8"

// Env is the per-process environment.
type Env struct {
	Srv  *memsql.Server
	TC   *faketc.TC
	Sess *faketc.Session
	AT   *sql.DB // AT proxy over memsql
	XA   *sql.DB // XA proxy over memsql (nil unless WithXA)
	Bare *sql.DB // plain memsql handle: setup, foreign writers, reference runs
	DSN  string
	// ResourceID is what the proxy registers with the coordinator.
	ResourceID string
}

var (
	once    sync.Once
	env     *Env
	caseSeq int64
)

// Options for Get.
type Options struct {
	XA      bool
	Version string // server version, default 8.0.30
}

// Get returns the process-wide environment (created on first use).
func Get(o Options) *Env {
	once.Do(func() {
		boot.Init("")
		e := &Env{}
		if o.Version == "" {
			o.Version = "8.0.30"
		}
		e.Srv = memsql.NewServer(o.Version)
		e.Srv.CreateSchema(Schema)
		memsql.Register(Addr, e.Srv)
		e.TC = faketc.New("")
		e.Sess = e.TC.Open()
		if !e.TC.WaitRegistered(e.Sess, 5*time.Second) {
			panic("atenv: client did not register as TM")
		}
		seatasql.RegisterDriversForVerif(ATDriver, XADriver, memsql.Driver{})
		e.DSN = "u:p@tcp(" + Addr + ")/" + Schema + "?interpolateParams=true&parseTime=true"
		e.ResourceID = "u:p@tcp(" + Addr + ")/" + Schema
		var err error
		if e.Bare, err = sql.Open(memsql.DriverName, e.DSN); err != nil {
			panic(err)
		}
		if _, err = e.Bare.Exec(UndoLogDDL); err != nil {
			panic(err)
		}
		if e.AT, err = sql.Open(ATDriver, e.DSN); err != nil {
			panic(err)
		}
		if err = e.AT.Ping(); err != nil {
			panic(err)
		}
		if o.XA {
			if e.XA, err = sql.Open(XADriver, e.DSN); err != nil {
				panic(err)
			}
			if err = e.XA.Ping(); err != nil {
				panic(err)
			}
		}
		env = e
	})
	return env
}

// NextCase returns a process-unique number for naming the tables of a case (the client's
// table-meta cache is keyed by table name only and never forgets).
func NextCase() int64 { return atomic.AddInt64(&caseSeq, 1) }

// UndoConfig sets the process-wide undo configuration for a case.
func UndoConfig(serializer, compress string, dataValidation, onlyCareUpdateColumns bool) {
	undo.InitUndoConfig(undo.Config{DataValidation: dataValidation, LogSerialization: serializer, LogTable: "undo_log",
		OnlyCareUpdateColumns: onlyCareUpdateColumns, CompressConfig: undo.CompressConfig{Enable: compress != "" && compress != "None", Type: compress, Threshold: "0"}})
}

// ResetCase forgets the journals and coordinator state before a case.
func (e *Env) ResetCase() {
	e.Srv.ClearFaults()
	e.Srv.ResetJournal()
	e.TC.Reset()
	tm.InitTm(tm.TmConfig{CommitRetryCount: 1, RollbackRetryCount: 1, DefaultGlobalTransactionTimeout: 60 * time.Second})
}

// UndoRows returns the committed undo_log rows for an xid.
func (e *Env) UndoRows(xid string) []map[string]memsql.Value {
	var out []map[string]memsql.Value
	for _, r := range e.Srv.Rows(Schema, "undo_log") {
		if s, _ := r["xid"].(string); s == xid || xid == "" {
			out = append(out, r)
		}
	}
	return out
}

// CleanUndo deletes every undo_log row (between cases).
func (e *Env) CleanUndo() {
	_, _ = e.Bare.Exec("DELETE FROM undo_log")
}

// Global runs f inside tm.WithGlobalTx and returns the xid and the error.
func Global(name string, f func(ctx context.Context) error) (xid string, err error) {
	err = tm.WithGlobalTx(context.Background(), &tm.GtxConfig{Name: name}, func(ctx context.Context) error {
		xid = tm.GetXID(ctx)
		return f(ctx)
	})
	return
}

// TableName builds a per-case table name.
func TableName(caseNo int64, i int) string { return fmt.Sprintf("c%d_t%d", caseNo, i) }
