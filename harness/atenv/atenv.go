// Package atenv wires the real seata-go client to the two stand-ins: the in-memory MySQL server
// (memsql) behind the AT/XA proxy drivers (hook H1) and the fake coordinator (faketc).
package atenv

import (
	"context"
	"database/sql"
	"fmt"
	"strings"
	"sync"
	"sync/atomic"
	"time"

	seatasql "seata.apache.org/seata-go/pkg/datasource/sql"
	"seata.apache.org/seata-go/pkg/datasource/sql/undo"
	"seata.apache.org/seata-go/pkg/tm"

	"verifharness/boot"
	"verifharness/faketc"
	"verifharness/memsql"
)

const (
	ATDriver = "seata-at-verif"
	XADriver = "seata-xa-verif"
	Addr     = "127.0.0.1:3306"
	Schema   = "db"
)

// UndoLogDDL is the undo_log table of the repository's testdata/sql/undo_log.sql.
const UndoLogDDL = "CREATE TABLE `undo_log` (`id` bigint(20) NOT NULL AUTO_INCREMENT, `branch_id` bigint(20) NOT NULL, `xid` varchar(100) NOT NULL, `context` varchar(128) NOT NULL, `rollback_info` longblob NOT NULL, `log_status` int(11) NOT NULL, `log_created` datetime(6) NOT NULL, `log_modified` datetime(6) NOT NULL, `ext` varchar(100) DEFAULT NULL, PRIMARY KEY (`id`), UNIQUE KEY `ux_undo_log` (`xid`,`branch_id`)) ENGINE=InnoDB DEFAULT CHARSET=utf8"

// Env is the per-process environment.
type Env struct {
	Srv  *memsql.Server
	TC   *faketc.TC
	Sess *faketc.Session
	AT   *sql.DB // AT proxy over memsql
	XA   *sql.DB // XA proxy over memsql (nil unless WithXA)
	Bare *sql.DB // plain memsql handle: setup, foreign writers, reference runs
	DSN  string
	// ResourceID is what the proxy registers with the coordinator.
	ResourceID string
}

var (
	once    sync.Once
	env     *Env
	caseSeq int64
)

// Options for Get.
type Options struct {
	XA      bool
	Version string // server version, default 8.0.30
}

// Get returns the process-wide environment (created on first use).
func Get(o Options) *Env {
	once.Do(func() {
		boot.Init("")
		e := &Env{}
		if o.Version == "" {
			o.Version = "8.0.30"
		}
		e.Srv = memsql.NewServer(o.Version)
		e.Srv.CreateSchema(Schema)
		memsql.Register(Addr, e.Srv)
		e.TC = faketc.New("")
		e.Sess = e.TC.Open()
		if !e.TC.WaitRegistered(e.Sess, 5*time.Second) {
			panic("atenv: client did not register as TM")
		}
		seatasql.RegisterDriversForVerif(ATDriver, XADriver, memsql.Driver{})
		e.DSN = "u:p@tcp(" + Addr + ")/" + Schema + "?interpolateParams=true&parseTime=true"
		e.ResourceID = "u:p@tcp(" + Addr + ")/" + Schema
		var err error
		if e.Bare, err = sql.Open(memsql.DriverName, e.DSN); err != nil {
			panic(err)
		}
		if _, err = e.Bare.Exec(UndoLogDDL); err != nil {
			panic(err)
		}
		if e.AT, err = sql.Open(ATDriver, e.DSN); err != nil {
			panic(err)
		}
		if err = e.AT.Ping(); err != nil {
			panic(err)
		}
		if o.XA {
			if e.XA, err = sql.Open(XADriver, e.DSN); err != nil {
				panic(err)
			}
			if err = e.XA.Ping(); err != nil {
				panic(err)
			}
		}
		env = e
	})
	return env
}

// NextCase returns a process-unique number for naming the tables of a case (the client's
// table-meta cache is keyed by table name only and never forgets).
func NextCase() int64 { return atomic.AddInt64(&caseSeq, 1) }

// UndoConfig sets the process-wide undo configuration for a case.
func UndoConfig(serializer, compress string, dataValidation, onlyCareUpdateColumns bool) {
	undo.InitUndoConfig(undo.Config{DataValidation: dataValidation, LogSerialization: serializer, LogTable: "undo_log",
		OnlyCareUpdateColumns: onlyCareUpdateColumns, CompressConfig: undo.CompressConfig{Enable: compress != "" && compress != "None", Type: compress, Threshold: "0"}})
}

// ResetCase forgets the journals and coordinator state before a case.
func (e *Env) ResetCase() {
	e.Srv.ClearFaults()
	e.Srv.KillOpenTransactions()
	e.Srv.ResetJournal()
	e.TC.Reset()
	tm.InitTm(tm.TmConfig{CommitRetryCount: 1, RollbackRetryCount: 1, DefaultGlobalTransactionTimeout: 60 * time.Second})
}

// UndoRows returns the committed undo_log rows for an xid.
func (e *Env) UndoRows(xid string) []map[string]memsql.Value {
	var out []map[string]memsql.Value
	for _, r := range e.Srv.Rows(Schema, "undo_log") {
		if s, _ := r["xid"].(string); s == xid || xid == "" {
			out = append(out, r)
		}
	}
	return out
}

// CleanUndo deletes every undo_log row (between cases).
func (e *Env) CleanUndo() {
	_, _ = e.Bare.Exec("DELETE FROM undo_log")
}

// Global runs f inside tm.WithGlobalTx and returns the xid and the error.
func Global(name string, f func(ctx context.Context) error) (xid string, err error) {
	err = tm.WithGlobalTx(context.Background(), &tm.GtxConfig{Name: name}, func(ctx context.Context) error {
		xid = tm.GetXID(ctx)
		return f(ctx)
	})
	return
}

// TableName builds a per-case table name.
func TableName(caseNo int64, i int) string { return fmt.Sprintf("c%d_t%d", caseNo, i) }

// ---- scenario runner -------------------------------------------------------------------------

// StmtResult is what the caller of one statement observed.
type StmtResult struct {
	Affected int64    `json:"affected"`
	LastID   int64    `json:"last_id"`
	Err      string   `json:"err,omitempty"`
	Rows     []string `json:"rows,omitempty"`
}

// BranchResult is what the caller of one local transaction observed.
type BranchResult struct {
	Stmts      []StmtResult `json:"stmts"`
	BeginErr   string       `json:"begin_err,omitempty"`
	CommitErr  string       `json:"commit_err,omitempty"`
	RolledBack bool         `json:"rolled_back,omitempty"`
}

// Failed reports whether anything in the branch returned an error.
func (b BranchResult) Failed() bool {
	if b.BeginErr != "" || b.CommitErr != "" {
		return true
	}
	for _, s := range b.Stmts {
		if s.Err != "" {
			return true
		}
	}
	return false
}

// FirstErr returns the first error text of the branch.
func (b BranchResult) FirstErr() string {
	if b.BeginErr != "" {
		return b.BeginErr
	}
	for _, s := range b.Stmts {
		if s.Err != "" {
			return s.Err
		}
	}
	return b.CommitErr
}

type execer interface {
	ExecContext(ctx context.Context, q string, args ...interface{}) (sql.Result, error)
	QueryContext(ctx context.Context, q string, args ...interface{}) (*sql.Rows, error)
	PrepareContext(ctx context.Context, q string) (*sql.Stmt, error)
}

func runStmt(ctx context.Context, x execer, q string, args []interface{}, prepared, isQuery bool) (r StmtResult) {
	defer func() {
		// a panic inside the driver stack surfaces to the application as a crash of the call
		if p := recover(); p != nil {
			r.Err = fmt.Sprintf("PANIC: %v", p)
		}
	}()
	if isQuery {
		var rows *sql.Rows
		var err error
		if prepared {
			var st *sql.Stmt
			if st, err = x.PrepareContext(ctx, q); err == nil {
				defer st.Close()
				rows, err = st.QueryContext(ctx, args...)
			}
		} else {
			rows, err = x.QueryContext(ctx, q, args...)
		}
		if err != nil {
			r.Err = err.Error()
			return r
		}
		defer rows.Close()
		cols, _ := rows.Columns()
		for rows.Next() {
			vals := make([]interface{}, len(cols))
			ptrs := make([]interface{}, len(cols))
			for i := range vals {
				ptrs[i] = &vals[i]
			}
			if err := rows.Scan(ptrs...); err != nil {
				r.Err = err.Error()
				return r
			}
			s := ""
			for i, v := range vals {
				s += fmt.Sprintf("%s=%s ", cols[i], memsql.RenderValue(normScan(v)))
			}
			r.Rows = append(r.Rows, s)
		}
		if err := rows.Err(); err != nil {
			r.Err = err.Error()
		}
		return r
	}
	var res sql.Result
	var err error
	if prepared {
		var st *sql.Stmt
		if st, err = x.PrepareContext(ctx, q); err == nil {
			defer st.Close()
			res, err = st.ExecContext(ctx, args...)
		}
	} else {
		res, err = x.ExecContext(ctx, q, args...)
	}
	if err != nil {
		r.Err = err.Error()
		return r
	}
	r.Affected, _ = res.RowsAffected()
	r.LastID, _ = res.LastInsertId()
	return r
}

func normScan(v interface{}) interface{} {
	if b, ok := v.([]byte); ok {
		return string(b)
	}
	return v
}

// RunBranch executes one branch the way a correct caller would: an explicit transaction is rolled
// back on the first statement error.
func RunBranch(ctx context.Context, db *sql.DB, mode, via string, prepared bool, stmts []StmtText) BranchResult {
	return RunBranchOpt(ctx, db, BranchOpts{Mode: mode, Via: via, Prepared: prepared}, stmts)
}

// BranchOpts are the ways a caller may run a branch.
type BranchOpts struct {
	Mode, Via string
	Prepared  bool
	// KeepGoing: inside an explicit transaction a failed statement is ignored (MySQL rolls back the
	// statement only) and the transaction is committed with what the other statements did
	KeepGoing bool
	// After runs one more autocommit statement on the same handle (same pinned connection) after the branch
	After *StmtText
	// Probe, when set, is called after every statement of an explicit transaction, before the transaction ends
	Probe func(i int, r StmtResult)
	// StmtBg: inside an explicit transaction (begun with the caller's context) the statements themselves are run
	// with context.Background(), which database/sql permits
	StmtBg bool
}

// RunBranchOpt is RunBranch with options; the result of After is appended to Stmts.
func RunBranchOpt(ctx context.Context, db *sql.DB, o BranchOpts, stmts []StmtText) (out BranchResult) {
	mode, via, prepared := o.Mode, o.Via, o.Prepared
	var x execer = db
	if via == "conn" {
		c, err := db.Conn(ctx)
		if err != nil {
			out.BeginErr = err.Error()
			return out
		}
		defer func() {
			// database/sql never releases a pinned connection when a driver call panicked on it:
			// closing it would block for ever, so it is leaked instead
			for _, r := range out.Stmts {
				if strings.HasPrefix(r.Err, "PANIC") {
					return
				}
			}
			if strings.HasPrefix(out.CommitErr, "PANIC") || strings.HasPrefix(out.BeginErr, "PANIC") {
				return
			}
			c.Close()
		}()
		x = c
	}
	// (registered after the deferred Close above, so it runs before it)
	defer func() {
		if o.After != nil && !strings.HasPrefix(out.CommitErr, "PANIC") {
			out.Stmts = append(out.Stmts, runStmt(ctx, x, o.After.SQL, o.After.Args, false, o.After.Query))
		}
	}()
	if mode != "tx" && mode != "mixed" {
		for _, s := range stmts {
			out.Stmts = append(out.Stmts, runStmt(ctx, x, s.SQL, s.Args, prepared, s.Query))
		}
		return out
	}
	var tail []StmtText
	if mode == "mixed" && len(stmts) >= 2 {
		tail = stmts[len(stmts)-1:]
		stmts = stmts[:len(stmts)-1]
	}
	var tx *sql.Tx
	var err error
	if c, ok := x.(*sql.Conn); ok {
		tx, err = c.BeginTx(ctx, nil)
	} else {
		tx, err = db.BeginTx(ctx, nil)
	}
	if err != nil {
		out.BeginErr = err.Error()
		return out
	}
	sctx := ctx
	if o.StmtBg {
		sctx = context.Background()
	}
	for _, s := range stmts {
		r := runStmt(sctx, tx, s.SQL, s.Args, prepared, s.Query)
		out.Stmts = append(out.Stmts, r)
		if o.Probe != nil {
			o.Probe(len(out.Stmts)-1, r)
		}
		if r.Err != "" && !o.KeepGoing {
			if err := safeEnd(tx, false); err != nil && strings.HasPrefix(err.Error(), "PANIC") {
				out.CommitErr = err.Error()
			}
			out.RolledBack = true
			return out
		}
	}
	if err := safeEnd(tx, true); err != nil {
		out.CommitErr = err.Error()
	}
	for _, s := range tail {
		out.Stmts = append(out.Stmts, runStmt(ctx, x, s.SQL, s.Args, prepared, s.Query))
	}
	return out
}

// safeEnd commits or rolls back; a panic in the driver stack becomes an error.
func safeEnd(tx *sql.Tx, commit bool) (err error) {
	defer func() {
		if p := recover(); p != nil {
			err = fmt.Errorf("PANIC: %v", p)
		}
	}()
	if commit {
		return tx.Commit()
	}
	return tx.Rollback()
}

// StmtText is a statement ready to run.
type StmtText struct {
	SQL   string
	Args  []interface{}
	Query bool
}

// ---- helpers shared by the AT-family properties ----------------------------------------------

// SetupTables creates the scenario's tables under per-case names and inserts the initial rows.
func (e *Env) SetupTables(ddl []string, inserts []string, n int) (names []string, err error) {
	c := NextCase()
	for i := 0; i < n; i++ {
		names = append(names, TableName(c, i))
	}
	for i, d := range ddl {
		if _, err := e.Bare.Exec(replaceName(d, names[i])); err != nil {
			return names, fmt.Errorf("DDL: %v", err)
		}
		if inserts[i] != "" {
			if _, err := e.Bare.Exec(replaceName(inserts[i], names[i])); err != nil {
				return names, fmt.Errorf("initial rows: %v", err)
			}
		}
	}
	return names, nil
}

func replaceName(q, name string) string {
	out := ""
	for i := 0; i < len(q); i++ {
		if i+3 <= len(q) && q[i:i+3] == "{T}" {
			out += name
			i += 2
			continue
		}
		out += string(q[i])
	}
	return out
}

// DropTables removes the per-case tables.
func (e *Env) DropTables(names []string) {
	for _, n := range names {
		e.Srv.DropTable(Schema, n)
	}
}

// DiffSnap describes the difference of two snapshots ("" when equal).
func DiffSnap(want, got map[string][]string) string {
	out := ""
	for t, ra := range want {
		ma, mb := map[string]int{}, map[string]int{}
		for _, r := range ra {
			ma[r]++
		}
		for _, r := range got[t] {
			mb[r]++
		}
		for r, n := range ma {
			if mb[r] != n {
				out += fmt.Sprintf("\n  %s: expected row missing/changed: %s", t, r)
			}
		}
		for r, n := range mb {
			if ma[r] != n {
				out += fmt.Sprintf("\n  %s: unexpected row: %s", t, r)
			}
		}
	}
	return out
}

// Tail renders the last n journal entries.
func Tail(j []memsql.Entry, n int) string {
	if len(j) > n {
		j = j[len(j)-n:]
	}
	out := ""
	for _, e := range j {
		out += "    " + e.String() + "\n"
	}
	return out
}

// OpenWith opens another handle on the same server with different DSN parameters
// (driver = memsql.DriverName, ATDriver or XADriver).
func (e *Env) OpenWith(driverName, params string) *sql.DB {
	db, err := sql.Open(driverName, "u:p@tcp("+Addr+")/"+Schema+"?"+params)
	if err != nil {
		panic(err)
	}
	if err = db.Ping(); err != nil {
		panic(err)
	}
	return db
}
