package memsql

import (
	"bytes"
	"fmt"
	"math"
	"regexp"
	"strconv"
	"strings"
	"time"

	"github.com/arana-db/parser/ast"
	"github.com/arana-db/parser/opcode"
	"github.com/arana-db/parser/test_driver"
)

// ---- value helpers ---------------------------------------------------------------------------

func toFloat(v Value) (float64, bool) {
	switch x := v.(type) {
	case int64:
		return float64(x), true
	case float64:
		return x, true
	case string:
		return leadingNumber(x), true
	case []byte:
		return leadingNumber(string(x)), true
	case bool:
		if x {
			return 1, true
		}
		return 0, true
	}
	return 0, false
}

var numPrefix = regexp.MustCompile(`^\s*[-+]?(\d+\.?\d*([eE][-+]?\d+)?|\.\d+([eE][-+]?\d+)?)`)

func leadingNumber(s string) float64 {
	m := numPrefix.FindString(s)
	if m == "" {
		return 0
	}
	f, _ := strconv.ParseFloat(strings.TrimSpace(m), 64)
	return f
}

func isNumeric(v Value) bool {
	switch v.(type) {
	case int64, float64, bool:
		return true
	}
	return false
}

func asString(v Value) (string, bool) {
	switch x := v.(type) {
	case string:
		return x, true
	case []byte:
		return string(x), true
	}
	return "", false
}

const timeLayout = "2006-01-02 15:04:05.999999"

func parseTime(s string) (time.Time, bool) {
	for _, l := range []string{"2006-01-02 15:04:05.999999999", "2006-01-02T15:04:05.999999999Z07:00", "2006-01-02", time.RFC3339Nano} {
		if t, err := time.Parse(l, s); err == nil {
			return t, true
		}
	}
	return time.Time{}, false
}

// compareValues implements MySQL's comparison coercions for the supported kinds.
// NULL ordering is not handled here (callers test for nil first); nil sorts first for ORDER BY.
func compareValues(a, b Value) int {
	if a == nil || b == nil {
		switch {
		case a == nil && b == nil:
			return 0
		case a == nil:
			return -1
		}
		return 1
	}
	if ta, ok := a.(time.Time); ok {
		tb, ok2 := b.(time.Time)
		if !ok2 {
			if s, ok3 := asString(b); ok3 {
				tb, ok2 = parseTime(s)
			}
		}
		if ok2 {
			switch {
			case ta.Before(tb):
				return -1
			case ta.After(tb):
				return 1
			}
			return 0
		}
	}
	if _, ok := b.(time.Time); ok {
		return -compareValues(b, a)
	}
	if ia, ok := a.(int64); ok {
		if ib, ok := b.(int64); ok {
			switch {
			case ia < ib:
				return -1
			case ia > ib:
				return 1
			}
			return 0
		}
	}
	if isNumeric(a) || isNumeric(b) {
		fa, _ := toFloat(a)
		fb, _ := toFloat(b)
		switch {
		case fa < fb:
			return -1
		case fa > fb:
			return 1
		}
		return 0
	}
	sa, _ := asString(a)
	sb, _ := asString(b)
	_, abin := a.([]byte)
	_, bbin := b.([]byte)
	if abin || bbin {
		return bytes.Compare([]byte(sa), []byte(sb))
	}
	// default collation: case-insensitive, trailing spaces ignored (utf8mb4_0900_ai_ci is NO PAD, but
	// generators never rely on padding; case-insensitivity matters)
	return strings.Compare(strings.ToLower(sa), strings.ToLower(sb))
}

func truthy(v Value) (bool, bool) { // (value, isNull)
	if v == nil {
		return false, true
	}
	f, _ := toFloat(v)
	return f != 0, false
}

// ---- evaluation ------------------------------------------------------------------------------

type evalCtx struct {
	t      *table
	row    []Value // current row (may be nil)
	args   []Value
	insert []Value // VALUES(col) source for ON DUPLICATE KEY UPDATE
	now    time.Time
}

func boolVal(b bool) Value {
	if b {
		return int64(1)
	}
	return int64(0)
}

func (e *evalCtx) eval(n ast.ExprNode) (Value, error) {
	switch x := n.(type) {
	case nil:
		return nil, nil
	case *test_driver.ValueExpr:
		return datumValue(&x.Datum), nil
	case *test_driver.ParamMarkerExpr:
		if x.Order >= len(e.args) {
			return nil, myErr(1210, "Incorrect arguments to mysqld_stmt_execute")
		}
		return e.args[x.Order], nil
	case *ast.ColumnNameExpr:
		return e.column(x.Name)
	case *ast.ParenthesesExpr:
		return e.eval(x.Expr)
	case *ast.UnaryOperationExpr:
		v, err := e.eval(x.V)
		if err != nil {
			return nil, err
		}
		switch x.Op {
		case opcode.Not, opcode.Not2:
			b, null := truthy(v)
			if null {
				return nil, nil
			}
			return boolVal(!b), nil
		case opcode.Minus:
			switch y := v.(type) {
			case nil:
				return nil, nil
			case int64:
				return -y, nil
			}
			f, _ := toFloat(v)
			return -f, nil
		case opcode.Plus:
			return v, nil
		}
		return nil, myErr(1235, "unsupported unary operator %v", x.Op)
	case *ast.BinaryOperationExpr:
		return e.binary(x)
	case *ast.IsNullExpr:
		v, err := e.eval(x.Expr)
		if err != nil {
			return nil, err
		}
		return boolVal((v == nil) != x.Not), nil
	case *ast.BetweenExpr:
		v, err := e.eval(x.Expr)
		if err != nil {
			return nil, err
		}
		lo, err := e.eval(x.Left)
		if err != nil {
			return nil, err
		}
		hi, err := e.eval(x.Right)
		if err != nil {
			return nil, err
		}
		if v == nil || lo == nil || hi == nil {
			return nil, nil
		}
		in := compareValues(v, lo) >= 0 && compareValues(v, hi) <= 0
		return boolVal(in != x.Not), nil
	case *ast.PatternInExpr:
		v, err := e.evalMaybeRow(x.Expr)
		if err != nil {
			return nil, err
		}
		sawNull := false
		for _, item := range x.List {
			iv, err := e.evalMaybeRow(item)
			if err != nil {
				return nil, err
			}
			eq, null := rowEqual(v, iv)
			if null {
				sawNull = true
				continue
			}
			if eq {
				return boolVal(!x.Not), nil
			}
		}
		if sawNull {
			return nil, nil
		}
		return boolVal(x.Not), nil
	case *ast.PatternLikeExpr:
		v, err := e.eval(x.Expr)
		if err != nil {
			return nil, err
		}
		p, err := e.eval(x.Pattern)
		if err != nil {
			return nil, err
		}
		if v == nil || p == nil {
			return nil, nil
		}
		vs, _ := asString(coerceToString(v))
		ps, _ := asString(coerceToString(p))
		return boolVal(likeMatch(vs, ps) != x.Not), nil
	case *ast.FuncCallExpr:
		switch strings.ToUpper(x.FnName.O) {
		case "NOW", "CURRENT_TIMESTAMP", "SYSDATE":
			return e.now, nil
		case "VERSION":
			return "8.0.30", nil
		case "DATABASE":
			return e.t.schema, nil
		case "CONCAT":
			var sb strings.Builder
			for _, a := range x.Args {
				v, err := e.eval(a)
				if err != nil {
					return nil, err
				}
				if v == nil {
					return nil, nil
				}
				s, _ := asString(coerceToString(v))
				sb.WriteString(s)
			}
			return sb.String(), nil
		}
		return nil, myErr(1305, "FUNCTION %s does not exist", x.FnName.O)
	case *ast.ValuesExpr:
		if e.insert == nil {
			return nil, nil
		}
		i, ok := e.t.colIdx[x.Column.Name.Name.L]
		if !ok {
			return nil, myErr(1054, "Unknown column '%s' in 'field list'", x.Column.Name.Name.O)
		}
		return e.insert[i], nil
	case *ast.DefaultExpr:
		if x.Name != nil {
			i, ok := e.t.colIdx[x.Name.Name.L]
			if !ok {
				return nil, myErr(1054, "Unknown column '%s' in 'field list'", x.Name.Name.O)
			}
			return e.t.cols[i].Default, nil
		}
		return defaultMarker{}, nil
	case *ast.RowExpr:
		return nil, myErr(1241, "Operand should contain 1 column(s)")
	}
	return nil, myErr(1235, "memsql: unsupported expression %T", n)
}

type defaultMarker struct{}
type rowValue []Value

func (e *evalCtx) evalMaybeRow(n ast.ExprNode) (Value, error) {
	if p, ok := n.(*ast.ParenthesesExpr); ok {
		if r, ok := p.Expr.(*ast.RowExpr); ok {
			n = r
		}
	}
	if r, ok := n.(*ast.RowExpr); ok {
		out := make(rowValue, len(r.Values))
		for i, v := range r.Values {
			x, err := e.eval(v)
			if err != nil {
				return nil, err
			}
			out[i] = x
		}
		return out, nil
	}
	return e.eval(n)
}

func rowEqual(a, b Value) (eq, null bool) {
	ra, aok := a.(rowValue)
	rb, bok := b.(rowValue)
	if aok != bok {
		// ((a) IN ((?))): a one-element row equals a scalar
		if aok && len(ra) == 1 {
			return rowEqual(ra[0], b)
		}
		if bok && len(rb) == 1 {
			return rowEqual(a, rb[0])
		}
		return false, false
	}
	if !aok {
		if a == nil || b == nil {
			return false, true
		}
		return compareValues(a, b) == 0, false
	}
	if len(ra) != len(rb) {
		return false, false
	}
	for i := range ra {
		if ra[i] == nil || rb[i] == nil {
			null = true
			continue
		}
		if compareValues(ra[i], rb[i]) != 0 {
			return false, false
		}
	}
	return !null, null
}

func (e *evalCtx) column(name *ast.ColumnName) (Value, error) {
	if e.t == nil {
		return nil, myErr(1054, "Unknown column '%s' in 'field list'", name.Name.O)
	}
	i, ok := e.t.colIdx[name.Name.L]
	if !ok {
		return nil, myErr(1054, "Unknown column '%s' in 'where clause'", name.Name.O)
	}
	if e.row == nil {
		return nil, nil
	}
	return e.row[i], nil
}

func (e *evalCtx) binary(x *ast.BinaryOperationExpr) (Value, error) {
	switch x.Op {
	case opcode.LogicAnd:
		l, err := e.eval(x.L)
		if err != nil {
			return nil, err
		}
		lb, ln := truthy(l)
		if !ln && !lb {
			return int64(0), nil
		}
		r, err := e.eval(x.R)
		if err != nil {
			return nil, err
		}
		rb, rn := truthy(r)
		if !rn && !rb {
			return int64(0), nil
		}
		if ln || rn {
			return nil, nil
		}
		return int64(1), nil
	case opcode.LogicOr:
		l, err := e.eval(x.L)
		if err != nil {
			return nil, err
		}
		lb, ln := truthy(l)
		if !ln && lb {
			return int64(1), nil
		}
		r, err := e.eval(x.R)
		if err != nil {
			return nil, err
		}
		rb, rn := truthy(r)
		if !rn && rb {
			return int64(1), nil
		}
		if ln || rn {
			return nil, nil
		}
		return int64(0), nil
	}
	l, err := e.evalMaybeRow(x.L)
	if err != nil {
		return nil, err
	}
	r, err := e.evalMaybeRow(x.R)
	if err != nil {
		return nil, err
	}
	switch x.Op {
	case opcode.EQ, opcode.NE, opcode.LT, opcode.LE, opcode.GT, opcode.GE, opcode.NullEQ:
		if _, ok := l.(rowValue); ok {
			eq, null := rowEqual(l, r)
			if null {
				return nil, nil
			}
			return boolVal(eq == (x.Op == opcode.EQ)), nil
		}
		if x.Op == opcode.NullEQ {
			if l == nil || r == nil {
				return boolVal(l == nil && r == nil), nil
			}
			return boolVal(compareValues(l, r) == 0), nil
		}
		if l == nil || r == nil {
			return nil, nil
		}
		c := compareValues(l, r)
		switch x.Op {
		case opcode.EQ:
			return boolVal(c == 0), nil
		case opcode.NE:
			return boolVal(c != 0), nil
		case opcode.LT:
			return boolVal(c < 0), nil
		case opcode.LE:
			return boolVal(c <= 0), nil
		case opcode.GT:
			return boolVal(c > 0), nil
		default:
			return boolVal(c >= 0), nil
		}
	case opcode.Plus, opcode.Minus, opcode.Mul, opcode.Div, opcode.IntDiv, opcode.Mod:
		if l == nil || r == nil {
			return nil, nil
		}
		li, lok := l.(int64)
		ri, rok := r.(int64)
		if lok && rok {
			switch x.Op {
			case opcode.Plus:
				if (ri > 0 && li > math.MaxInt64-ri) || (ri < 0 && li < math.MinInt64-ri) {
					return nil, myErr(1690, "BIGINT value is out of range in '(%d + %d)'", li, ri)
				}
				return li + ri, nil
			case opcode.Minus:
				if (ri < 0 && li > math.MaxInt64+ri) || (ri > 0 && li < math.MinInt64+ri) {
					return nil, myErr(1690, "BIGINT value is out of range in '(%d - %d)'", li, ri)
				}
				return li - ri, nil
			case opcode.Mul:
				if li != 0 && (li*ri)/li != ri {
					return nil, myErr(1690, "BIGINT value is out of range in '(%d * %d)'", li, ri)
				}
				return li * ri, nil
			case opcode.IntDiv:
				if ri == 0 {
					return nil, nil
				}
				return li / ri, nil
			case opcode.Mod:
				if ri == 0 {
					return nil, nil
				}
				return li % ri, nil
			}
		}
		lf, _ := toFloat(l)
		rf, _ := toFloat(r)
		switch x.Op {
		case opcode.Plus:
			return lf + rf, nil
		case opcode.Minus:
			return lf - rf, nil
		case opcode.Mul:
			return lf * rf, nil
		case opcode.Div:
			if rf == 0 {
				return nil, nil
			}
			return lf / rf, nil
		case opcode.IntDiv:
			if rf == 0 {
				return nil, nil
			}
			return int64(lf / rf), nil
		case opcode.Mod:
			if rf == 0 {
				return nil, nil
			}
			return math.Mod(lf, rf), nil
		}
	}
	return nil, myErr(1235, "memsql: unsupported operator %v", x.Op)
}

func coerceToString(v Value) Value {
	switch x := v.(type) {
	case int64:
		return strconv.FormatInt(x, 10)
	case float64:
		return strconv.FormatFloat(x, 'g', -1, 64)
	case time.Time:
		return x.Format(timeLayout)
	}
	return v
}

func likeMatch(s, p string) bool {
	var sb strings.Builder
	sb.WriteString("(?is)^")
	esc := false
	for _, r := range p {
		switch {
		case esc:
			sb.WriteString(regexp.QuoteMeta(string(r)))
			esc = false
		case r == '\\':
			esc = true
		case r == '%':
			sb.WriteString(".*")
		case r == '_':
			sb.WriteString(".")
		default:
			sb.WriteString(regexp.QuoteMeta(string(r)))
		}
	}
	sb.WriteString("$")
	re, err := regexp.Compile(sb.String())
	return err == nil && re.MatchString(s)
}

func datumValue(d *test_driver.Datum) Value {
	switch d.Kind() {
	case test_driver.KindNull:
		return nil
	case test_driver.KindInt64:
		return d.GetInt64()
	case test_driver.KindUint64:
		u := d.GetUint64()
		if u > math.MaxInt64 {
			return float64(u)
		}
		return int64(u)
	case test_driver.KindFloat32:
		return float64(d.GetFloat32())
	case test_driver.KindFloat64:
		return d.GetFloat64()
	case test_driver.KindString:
		return d.GetString()
	case test_driver.KindBytes:
		return d.GetBytes()
	case test_driver.KindMysqlDecimal:
		f, _ := strconv.ParseFloat(string(d.GetMysqlDecimal().ToString()), 64)
		return f
	case test_driver.KindBinaryLiteral:
		return []byte(d.GetBinaryLiteral())
	}
	return fmt.Sprint(d.GetValue())
}

// convertForColumn coerces a value to the column's storage kind, enforcing NOT NULL and ranges.
func convertForColumn(c *Column, v Value) (Value, error) {
	if v == nil {
		if !c.Nullable {
			return nil, myErr(1048, "Column '%s' cannot be null", c.Name)
		}
		return nil, nil
	}
	if b, ok := v.(bool); ok {
		v = boolVal(b)
	}
	switch c.kind() {
	case "int":
		var n int64
		switch x := v.(type) {
		case int64:
			n = x
		case float64:
			if x != math.Trunc(x) {
				x = math.Round(x)
			}
			if x >= 9.3e18 || x <= -9.3e18 {
				return nil, myErr(1264, "Out of range value for column '%s' at row 1", c.Name)
			}
			n = int64(x)
		default:
			s, _ := asString(v)
			s = strings.TrimSpace(s)
			i, err := strconv.ParseInt(s, 10, 64)
			if err != nil {
				f, ferr := strconv.ParseFloat(s, 64)
				if ferr != nil {
					return nil, myErr(1366, "Incorrect integer value: '%s' for column '%s' at row 1", s, c.Name)
				}
				i = int64(math.Round(f))
			}
			n = i
		}
		lo, hi := int64(math.MinInt64), int64(math.MaxInt64)
		switch c.Type {
		case "TINYINT":
			lo, hi = -128, 127
		case "SMALLINT":
			lo, hi = -32768, 32767
		case "MEDIUMINT":
			lo, hi = -8388608, 8388607
		case "INT", "INTEGER":
			lo, hi = math.MinInt32, math.MaxInt32
		}
		if n < lo || n > hi {
			return nil, myErr(1264, "Out of range value for column '%s' at row 1", c.Name)
		}
		return n, nil
	case "float":
		f, ok := toFloat(v)
		if !ok {
			return nil, myErr(1366, "Incorrect decimal value for column '%s'", c.Name)
		}
		if s, isStr := asString(v); isStr && numPrefix.FindString(s) == "" {
			return nil, myErr(1366, "Incorrect decimal value: '%s' for column '%s' at row 1", s, c.Name)
		}
		switch c.Type {
		case "FLOAT":
			f = float64(float32(f))
		case "DECIMAL", "NUMERIC":
			scale := c.Scale
			p := math.Pow(10, float64(scale))
			f = math.Round(f*p) / p
		}
		return f, nil
	case "string":
		switch x := v.(type) {
		case string:
			if c.Length > 0 && (c.Type == "CHAR" || c.Type == "VARCHAR") && len([]rune(x)) > c.Length {
				return nil, myErr(1406, "Data too long for column '%s' at row 1", c.Name)
			}
			return x, nil
		case []byte:
			return string(x), nil
		case time.Time:
			return x.Format(timeLayout), nil
		}
		s, _ := asString(coerceToString(v))
		return s, nil
	case "bytes":
		switch x := v.(type) {
		case []byte:
			return append([]byte{}, x...), nil
		case string:
			return []byte(x), nil
		}
		s, _ := asString(coerceToString(v))
		return []byte(s), nil
	case "time":
		var t time.Time
		switch x := v.(type) {
		case time.Time:
			t = x
		default:
			s, _ := asString(coerceToString(v))
			p, ok := parseTime(s)
			if !ok {
				return nil, myErr(1292, "Incorrect datetime value: '%s' for column '%s' at row 1", s, c.Name)
			}
			t = p
		}
		t = t.UTC()
		if c.Type == "DATE" {
			t = time.Date(t.Year(), t.Month(), t.Day(), 0, 0, 0, 0, time.UTC)
		} else {
			frac := c.Length // fractional seconds precision stored in Length for temporal types
			unit := time.Duration(math.Pow10(9 - frac))
			t = t.Round(unit)
		}
		return t, nil
	}
	return v, nil
}
