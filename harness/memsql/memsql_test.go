package memsql

import (
	"context"
	"database/sql"
	"database/sql/driver"
	"errors"
	"fmt"
	"testing"
	"time"

	"github.com/go-sql-driver/mysql"
)

func open(t *testing.T, addr string) (*Server, *sql.DB) {
	t.Helper()
	s := NewServer("8.0.30")
	s.CreateSchema("db")
	Register(addr, s)
	db, err := sql.Open(DriverName, "u:p@tcp("+addr+")/db?interpolateParams=true&parseTime=true")
	if err != nil {
		t.Fatal(err)
	}
	return s, db
}

func must(t *testing.T, err error) {
	t.Helper()
	if err != nil {
		t.Fatal(err)
	}
}

func errno(err error) uint16 {
	var me *mysql.MySQLError
	if errors.As(err, &me) {
		return me.Number
	}
	return 0
}

func TestBasicDML(t *testing.T) {
	s, db := open(t, "t1:3306")
	_, err := db.Exec("CREATE TABLE t_user (id BIGINT NOT NULL AUTO_INCREMENT, name VARCHAR(32) NOT NULL DEFAULT 'x', age INT NULL, score DECIMAL(10,2) DEFAULT 1.5, ts DATETIME(6) NULL, bin VARBINARY(16), PRIMARY KEY (id), UNIQUE KEY uk (name))")
	must(t, err)
	r, err := db.Exec("INSERT INTO t_user (name, age) VALUES (?, ?), ('b', NULL), ('c', 7)", "a", 5)
	must(t, err)
	if n, _ := r.RowsAffected(); n != 3 {
		t.Fatalf("affected %d", n)
	}
	if id, _ := r.LastInsertId(); id != 1 {
		t.Fatalf("last id %d", id)
	}
	// duplicate unique
	_, err = db.Exec("INSERT INTO t_user (name) VALUES ('a')")
	if errno(err) != 1062 {
		t.Fatalf("want 1062 got %v", err)
	}
	// not null
	_, err = db.Exec("INSERT INTO t_user (name) VALUES (NULL)")
	if errno(err) != 1048 {
		t.Fatalf("want 1048 got %v", err)
	}
	// update: affected = changed rows
	r, err = db.Exec("UPDATE t_user SET age = ? WHERE id IN (?, ?)", 5, 1, 3)
	must(t, err)
	if n, _ := r.RowsAffected(); n != 1 {
		t.Fatalf("changed rows %d (row 1 already had age 5)", n)
	}
	// three-valued logic: age <> 5 does not match NULL
	var cnt int
	must(t, db.QueryRow("SELECT COUNT(*) FROM t_user WHERE age <> 9").Scan(&cnt))
	if cnt != 2 {
		t.Fatalf("count %d", cnt)
	}
	// row-tuple IN with one column, as seata writes it
	rows, err := db.Query("SELECT name, id FROM t_user WHERE (`id`) IN ((?),(?)) ORDER BY id DESC", 1, 2)
	must(t, err)
	var names []string
	for rows.Next() {
		var n string
		var id int64
		must(t, rows.Scan(&n, &id))
		names = append(names, n)
	}
	if fmt.Sprint(names) != "[b a]" {
		t.Fatalf("names %v", names)
	}
	// on duplicate key update: 2 when changed, 0 when identical, 1 when inserted
	r, err = db.Exec("INSERT INTO t_user (id, name, age) VALUES (1, 'zz', 1) ON DUPLICATE KEY UPDATE age = VALUES(age) + 10")
	must(t, err)
	if n, _ := r.RowsAffected(); n != 2 {
		t.Fatalf("upsert affected %d", n)
	}
	r, _ = db.Exec("INSERT INTO t_user (id, name, age) VALUES (1, 'zz', 1) ON DUPLICATE KEY UPDATE age = 11")
	if n, _ := r.RowsAffected(); n != 0 {
		t.Fatalf("upsert no-change affected %d", n)
	}
	r, _ = db.Exec("DELETE FROM t_user WHERE name LIKE 'b%' OR age BETWEEN 7 AND 8")
	if n, _ := r.RowsAffected(); n != 1 {
		t.Fatalf("delete affected %d", n)
	}
	snap := s.Snapshot("db", "t_user")
	if len(snap["T_USER"]) != 2 {
		t.Fatalf("snapshot %v", snap)
	}
	// string literal that parses as an unknown column (what seata's restore produces) → 1054
	_, err = db.Exec("UPDATE t_user SET age = 1 WHERE name = _UTF8MB4abc")
	if errno(err) != 1054 {
		t.Fatalf("want 1054 got %v", err)
	}
}

func TestTransactionsAndLocks(t *testing.T) {
	s, db := open(t, "t2:3306")
	s.SetLockWait(50 * time.Millisecond)
	_, err := db.Exec("CREATE TABLE acc (id INT PRIMARY KEY, bal INT NOT NULL)")
	must(t, err)
	_, err = db.Exec("INSERT INTO acc VALUES (1, 100), (2, 200)")
	must(t, err)
	ctx := context.Background()
	c1, _ := db.Conn(ctx)
	c2, _ := db.Conn(ctx)
	tx1, err := c1.BeginTx(ctx, nil)
	must(t, err)
	_, err = tx1.Exec("UPDATE acc SET bal = bal - 10 WHERE id = 1")
	must(t, err)
	// committed read from another connection
	var bal int
	must(t, c2.QueryRowContext(ctx, "SELECT bal FROM acc WHERE id = 1").Scan(&bal))
	if bal != 100 {
		t.Fatalf("dirty read: %d", bal)
	}
	// own write visible
	must(t, tx1.QueryRow("SELECT bal FROM acc WHERE id = 1").Scan(&bal))
	if bal != 90 {
		t.Fatalf("own write invisible: %d", bal)
	}
	// lock wait timeout for a conflicting writer and for a locking read
	_, err = c2.ExecContext(ctx, "UPDATE acc SET bal = 0 WHERE id = 1")
	if errno(err) != 1205 {
		t.Fatalf("want 1205 got %v", err)
	}
	_, err = c2.QueryContext(ctx, "SELECT * FROM acc WHERE id = 1 FOR UPDATE")
	if errno(err) != 1205 {
		t.Fatalf("want 1205 got %v", err)
	}
	// other rows are free
	_, err = c2.ExecContext(ctx, "UPDATE acc SET bal = 1 WHERE id = 2")
	must(t, err)
	// savepoint
	_, err = tx1.Exec("SAVEPOINT sp1")
	must(t, err)
	_, err = tx1.Exec("DELETE FROM acc WHERE id = 1")
	must(t, err)
	_, err = tx1.Exec("ROLLBACK TO SAVEPOINT sp1")
	must(t, err)
	must(t, tx1.QueryRow("SELECT bal FROM acc WHERE id = 1").Scan(&bal))
	if bal != 90 {
		t.Fatalf("after rollback to savepoint: %d", bal)
	}
	must(t, tx1.Rollback())
	must(t, c2.QueryRowContext(ctx, "SELECT bal FROM acc WHERE id = 1").Scan(&bal))
	if bal != 100 {
		t.Fatalf("after rollback: %d", bal)
	}
	// statement atomicity: second row of a multi-row insert fails → nothing inserted
	_, err = c2.ExecContext(ctx, "INSERT INTO acc VALUES (3, 1), (1, 1)")
	if errno(err) != 1062 {
		t.Fatalf("want 1062 got %v", err)
	}
	var n int
	must(t, c2.QueryRowContext(ctx, "SELECT COUNT(*) FROM acc").Scan(&n))
	if n != 2 {
		t.Fatalf("statement not atomic: %d rows", n)
	}
	if _, open, _ := s.Stats(); open != 0 {
		t.Fatalf("open transactions: %d", open)
	}
	c1.Close()
	c2.Close()
}

func TestProtocolsAndMeta(t *testing.T) {
	_, db := open(t, "t3:3306")
	_, err := db.Exec("CREATE TABLE m (id INT PRIMARY KEY, v VARCHAR(10), d DOUBLE, ts DATETIME(3), b BLOB, k INT NOT NULL, UNIQUE KEY u1 (k))")
	must(t, err)
	when := time.Date(2024, 2, 29, 12, 34, 56, 123456789, time.UTC)
	_, err = db.Exec("INSERT INTO m VALUES (?, ?, ?, ?, ?, ?)", 1, "x", 1.5, when, []byte{0, 255}, 9)
	must(t, err)
	ctx := context.Background()
	c, _ := db.Conn(ctx)
	defer c.Close()
	err = c.Raw(func(dc interface{}) error {
		mc := dc.(*conn)
		// text protocol: everything []byte (time.Time with parseTime)
		r, err := mc.QueryContext(ctx, "SELECT id, v, d, ts, b FROM m", nil)
		if err != nil {
			return err
		}
		d := make([]driverValue, 5)
		if err := r.Next(d); err != nil {
			return err
		}
		if _, ok := d[0].([]byte); !ok {
			return fmt.Errorf("text protocol int is %T", d[0])
		}
		if ts, ok := d[3].(time.Time); !ok || ts.Nanosecond() != 123000000 {
			return fmt.Errorf("text protocol time is %T %v", d[3], d[3])
		}
		// binary protocol: typed
		st, _ := mc.Prepare("SELECT id, v, d, ts, b FROM m WHERE id = ?")
		r2, err := st.Query([]driverValue{int64(1)})
		if err != nil {
			return err
		}
		if err := r2.Next(d); err != nil {
			return err
		}
		if _, ok := d[0].(int64); !ok {
			return fmt.Errorf("binary protocol int is %T", d[0])
		}
		if _, ok := d[2].(float64); !ok {
			return fmt.Errorf("binary protocol double is %T", d[2])
		}
		// ErrSkip when the text protocol cannot interpolate
		if _, err := mc.ExecContext(ctx, "UPDATE m SET v = '?' WHERE id = ?", namedOf([]driverValue{int64(1)})); err == nil || err.Error() != "driver: skip fast-path; continue as if unimplemented" {
			return fmt.Errorf("expected ErrSkip, got %v", err)
		}
		return nil
	})
	must(t, err)
	// information schema as seata queries it
	rows, err := db.Query("SELECT `TABLE_NAME`, `TABLE_SCHEMA`, `COLUMN_NAME`, `DATA_TYPE`, `COLUMN_TYPE`, `COLUMN_KEY`, `IS_NULLABLE`, `COLUMN_DEFAULT`, `EXTRA` FROM INFORMATION_SCHEMA.COLUMNS WHERE `TABLE_SCHEMA` = ? AND `TABLE_NAME` = ?", "db", "M")
	must(t, err)
	n := 0
	for rows.Next() {
		n++
	}
	if n != 6 {
		t.Fatalf("columns: %d", n)
	}
	rows, err = db.Query("SELECT `INDEX_NAME`, `COLUMN_NAME`, `NON_UNIQUE` FROM `INFORMATION_SCHEMA`.`STATISTICS` WHERE `TABLE_SCHEMA` = ? AND `TABLE_NAME` = ?", "db", "m")
	must(t, err)
	n = 0
	for rows.Next() {
		n++
	}
	if n != 2 {
		t.Fatalf("indexes: %d", n)
	}
}

type driverValue = driver.Value

func TestXA(t *testing.T) {
	s, db := open(t, "t4:3306")
	_, err := db.Exec("CREATE TABLE x (id INT PRIMARY KEY, v INT)")
	must(t, err)
	ctx := context.Background()
	c1, _ := db.Conn(ctx)
	c2, _ := db.Conn(ctx)
	defer c1.Close()
	defer c2.Close()
	ex := func(c *sql.Conn, q string) error { _, err := c.ExecContext(ctx, q); return err }
	must(t, ex(c1, "XA START 'g1','b1'"))
	must(t, ex(c1, "INSERT INTO x VALUES (1, 1)"))
	if errno(ex(c1, "XA PREPARE 'g1','b1'")) != 1399 {
		t.Fatal("PREPARE before END must fail with XAER_RMFAIL")
	}
	must(t, ex(c1, "XA END 'g1','b1'"))
	if errno(ex(c1, "INSERT INTO x VALUES (2, 1)")) != 1399 {
		t.Fatal("statement after XA END must fail")
	}
	must(t, ex(c1, "XA PREPARE 'g1','b1'"))
	// prepared branch survives and can be finished from another connection on 8.0.30
	var cnt int
	must(t, c2.QueryRowContext(ctx, "SELECT COUNT(*) FROM x").Scan(&cnt))
	if cnt != 0 {
		t.Fatal("prepared data visible")
	}
	must(t, ex(c2, "XA COMMIT 'g1','b1'"))
	must(t, c2.QueryRowContext(ctx, "SELECT COUNT(*) FROM x").Scan(&cnt))
	if cnt != 1 {
		t.Fatal("commit lost")
	}
	if errno(ex(c2, "XA ROLLBACK 'g1','b1'")) != 1397 {
		t.Fatal("unknown xid must give XAER_NOTA")
	}
	// 5.7: only the preparing connection may finish
	s.SetVersion("5.7.30")
	must(t, ex(c1, "XA START 'g2'"))
	must(t, ex(c1, "INSERT INTO x VALUES (3, 1)"))
	must(t, ex(c1, "XA END 'g2'"))
	must(t, ex(c1, "XA PREPARE 'g2'"))
	if errno(ex(c2, "XA COMMIT 'g2'")) != 1397 {
		t.Fatal("5.7: foreign connection must not see the branch")
	}
	must(t, ex(c1, "XA ROLLBACK 'g2'"))
}

func TestFaultsAndJournal(t *testing.T) {
	s, db := open(t, "t5:3306")
	_, err := db.Exec("CREATE TABLE f (id INT PRIMARY KEY)")
	must(t, err)
	s.ResetJournal()
	f := &Fault{Match: func(e *Entry) bool { return e.Kind == "COMMIT" }}
	s.AddFault(f)
	tx, _ := db.Begin()
	_, err = tx.Exec("INSERT INTO f VALUES (1)")
	must(t, err)
	if err := tx.Commit(); errno(err) != 1205 {
		t.Fatalf("injected commit failure expected, got %v", err)
	}
	if f.Fired() != 1 {
		t.Fatal("fault not fired")
	}
	// the transaction is still open on that connection; database/sql has released the Tx; roll it back through a new statement
	s.ClearFaults()
	// dropped connection rolls back
	s.AddFault(&Fault{Match: func(e *Entry) bool { return e.Kind == "E" }, DropConn: true})
	_, err = db.Exec("INSERT INTO f VALUES (2)")
	if err == nil {
		t.Fatal("expected invalid connection")
	}
	s.ClearFaults()
	var n int
	must(t, db.QueryRow("SELECT COUNT(*) FROM f").Scan(&n))
	j := s.Journal()
	if len(j) < 4 {
		t.Fatalf("journal too short: %v", j)
	}
	for i := 1; i < len(j); i++ {
		if j[i].Seq <= j[i-1].Seq {
			t.Fatal("journal not ordered")
		}
	}
}
