package memsql

import (
	"context"
	"database/sql"
	"database/sql/driver"
	"fmt"
	"io"
	"math"
	"reflect"
	"strconv"
	"strings"
	"sync"
	"time"

	"github.com/go-sql-driver/mysql"
)

var errBadConn = driver.ErrBadConn

// Driver is the database/sql/driver face. DSNs are go-sql-driver DSNs; the address part selects
// a registered Server.
type Driver struct{}

var (
	regMu   sync.Mutex
	servers = map[string]*Server{}
)

// Register makes a server reachable under an address such as "127.0.0.1:3306".
func Register(addr string, s *Server) {
	regMu.Lock()
	servers[addr] = s
	regMu.Unlock()
}

const DriverName = "memsql"

func init() { sql.Register(DriverName, Driver{}) }

func (Driver) Open(dsn string) (driver.Conn, error) {
	cfg, err := mysql.ParseDSN(dsn)
	if err != nil {
		return nil, err
	}
	regMu.Lock()
	s := servers[cfg.Addr]
	regMu.Unlock()
	if s == nil {
		return nil, fmt.Errorf("memsql: no server registered at %q", cfg.Addr)
	}
	return s.connect(cfg)
}

type conn struct {
	srv         *Server
	id          int
	schema      string
	tx          *txn
	dead        bool
	closed      bool
	interpolate bool
	parseTime   bool
	multi       bool
}

func (s *Server) connect(cfg *mysql.Config) (*conn, error) {
	c := &conn{srv: s, schema: cfg.DBName, interpolate: cfg.InterpolateParams, parseTime: cfg.ParseTime, multi: cfg.MultiStatements}
	s.mu.Lock()
	s.connSeq++
	c.id = s.connSeq
	s.mu.Unlock()
	idx, e, injected, _ := s.begin(c, "CONNECT", "", nil)
	if injected != nil {
		s.finish(idx, e.Seq, injected, 0, 0, nil, true)
		return nil, injected
	}
	s.mu.Lock()
	if s.schema(cfg.DBName) == nil && cfg.DBName != "" {
		s.mu.Unlock()
		err := myErr(1049, "Unknown database '%s'", cfg.DBName)
		s.finish(idx, e.Seq, err, 0, 0, nil, false)
		return nil, err
	}
	s.conns[c.id] = c
	s.mu.Unlock()
	s.finish(idx, e.Seq, nil, 0, 0, nil, false)
	return c, nil
}

// kill marks the connection lost: the server rolls its transaction back.
func (c *conn) kill() {
	s := c.srv
	s.mu.Lock()
	if c.tx != nil && !(c.tx.xid != "" && c.tx.xaState == "PREPARED") {
		s.rollbackTxn(c.tx)
	} else if c.tx != nil {
		c.tx.conn = nil
	}
	c.tx = nil
	c.dead = true
	delete(s.conns, c.id)
	s.mu.Unlock()
}

func (c *conn) Close() error {
	if c.closed {
		return nil
	}
	c.closed = true
	if !c.dead {
		c.srv.begin(c, "CLOSE", "", nil)
		c.kill()
	}
	return nil
}

func (c *conn) Ping(ctx context.Context) error {
	if c.dead {
		return errBadConn
	}
	return nil
}

func (c *conn) ResetSession(ctx context.Context) error {
	if c.dead {
		return errBadConn
	}
	return nil
}

func (c *conn) IsValid() bool { return !c.dead }

// CheckNamedValue mirrors go-sql-driver's converter: the default conversions plus uint64.
func (c *conn) CheckNamedValue(nv *driver.NamedValue) error {
	v, err := convertArg(nv.Value)
	if err != nil {
		return err
	}
	nv.Value = v
	return nil
}

func convertArg(v interface{}) (driver.Value, error) {
	if driver.IsValue(v) {
		return v, nil
	}
	if vr, ok := v.(driver.Valuer); ok {
		sv, err := vr.Value()
		if err != nil {
			return nil, err
		}
		if driver.IsValue(sv) {
			return sv, nil
		}
		if u, ok := sv.(uint64); ok {
			return u, nil
		}
		return nil, fmt.Errorf("non-Value type %T returned from Value", sv)
	}
	rv := reflect.ValueOf(v)
	switch rv.Kind() {
	case reflect.Ptr:
		if rv.IsNil() {
			return nil, nil
		}
		return convertArg(rv.Elem().Interface())
	case reflect.Int, reflect.Int8, reflect.Int16, reflect.Int32, reflect.Int64:
		return rv.Int(), nil
	case reflect.Uint, reflect.Uint8, reflect.Uint16, reflect.Uint32, reflect.Uint64:
		return rv.Uint(), nil
	case reflect.Float32, reflect.Float64:
		return rv.Float(), nil
	case reflect.Bool:
		return rv.Bool(), nil
	case reflect.Slice:
		if rv.Type().Elem().Kind() == reflect.Uint8 {
			return rv.Bytes(), nil
		}
	case reflect.String:
		return rv.String(), nil
	}
	return nil, fmt.Errorf("unsupported type %T, a %s", v, rv.Kind())
}

func engineArgs(named []driver.NamedValue) []Value {
	out := make([]Value, len(named))
	for i, n := range named {
		out[i] = engineArg(n.Value)
	}
	return out
}

func engineArg(v driver.Value) Value {
	switch x := v.(type) {
	case uint64:
		if x > math.MaxInt64 {
			return float64(x)
		}
		return int64(x)
	case bool:
		if x {
			return int64(1)
		}
		return int64(0)
	case []byte:
		return append([]byte{}, x...)
	}
	return v
}

// statement runs one statement with journaling, faults and pauses.
func (c *conn) statement(kind, query string, named []driver.NamedValue) (*resultSet, *execResult, error) {
	if c.dead {
		return nil, nil, errBadConn
	}
	args := engineArgs(named)
	idx, e, injected, drop := c.srv.begin(c, kind, query, args)
	var inRows *rowFault
	if rf, ok := injected.(*rowFault); ok {
		inRows, injected = rf, nil
	}
	if injected != nil {
		if drop {
			c.kill()
			injected = mysql.ErrInvalidConn
		}
		c.srv.finish(idx, e.Seq, injected, 0, 0, nil, true)
		return nil, nil, injected
	}
	if c.tx != nil && c.tx.readOnly {
		if u := strings.ToUpper(strings.TrimSpace(query)); strings.HasPrefix(u, "INSERT") || strings.HasPrefix(u, "UPDATE") || strings.HasPrefix(u, "DELETE") || strings.HasPrefix(u, "REPLACE") {
			err := myErr(1792, "Cannot execute statement in a READ ONLY transaction.")
			c.srv.finish(idx, e.Seq, err, 0, 0, nil, false)
			return nil, nil, err
		}
	}
	rs, res, writes, err := c.run(query, args)
	var aff int64
	rows := 0
	if res != nil {
		aff = res.affected
	}
	if rs != nil {
		rows = len(rs.rows)
	}
	for i := range writes {
		writes[i].Stmt = e.Seq
	}
	if inRows != nil && err == nil {
		if rs == nil {
			rs = &resultSet{}
		}
		cp := *rs
		cp.failErr, cp.failAfter = inRows.err, inRows.after
		rs = &cp
		c.srv.finish(idx, e.Seq, fmt.Errorf("while streaming the rows: %v", inRows.err), aff, rows, writes, true)
		return rs, res, nil
	}
	c.srv.finish(idx, e.Seq, err, aff, rows, writes, false)
	return rs, res, err
}

// fastPath mimics go-sql-driver: with arguments the text protocol is only usable when
// interpolateParams is on and the '?' count equals the argument count.
func (c *conn) fastPath(query string, args []driver.NamedValue) error {
	if len(args) == 0 {
		return nil
	}
	if !c.interpolate {
		return driver.ErrSkip
	}
	if strings.Count(query, "?") != len(args) {
		return driver.ErrSkip
	}
	for _, a := range args {
		switch a.Value.(type) {
		case nil, int64, uint64, float64, bool, time.Time, []byte, string:
		default:
			return driver.ErrSkip
		}
	}
	return nil
}

func (c *conn) ExecContext(ctx context.Context, query string, args []driver.NamedValue) (driver.Result, error) {
	if err := c.fastPath(query, args); err != nil {
		return nil, err
	}
	_, res, err := c.statement("E", query, args)
	if err != nil {
		return nil, err
	}
	if res == nil {
		res = &execResult{}
	}
	return result{res.lastID, res.affected}, nil
}

func (c *conn) QueryContext(ctx context.Context, query string, args []driver.NamedValue) (driver.Rows, error) {
	if err := c.fastPath(query, args); err != nil {
		return nil, err
	}
	rs, _, err := c.statement("Q", query, args)
	if err != nil {
		return nil, err
	}
	if rs == nil {
		rs = &resultSet{}
	}
	return &rows{rs: rs, binary: false, parseTime: c.parseTime, reuse: c.srv.bufferReuse()}, nil
}

func (c *conn) Prepare(query string) (driver.Stmt, error) {
	return c.PrepareContext(context.Background(), query)
}

func (c *conn) PrepareContext(ctx context.Context, query string) (driver.Stmt, error) {
	if c.dead {
		return nil, errBadConn
	}
	return &stmt{c: c, query: query, n: strings.Count(stripLiterals(query), "?")}, nil
}

func stripLiterals(q string) string {
	var sb strings.Builder
	var quote rune
	for _, r := range q {
		switch {
		case quote != 0:
			if r == quote {
				quote = 0
			}
		case r == '\'' || r == '"' || r == '`':
			quote = r
		default:
			sb.WriteRune(r)
		}
	}
	return sb.String()
}

func (c *conn) Begin() (driver.Tx, error) { return c.BeginTx(context.Background(), driver.TxOptions{}) }

func (c *conn) BeginTx(ctx context.Context, opts driver.TxOptions) (driver.Tx, error) {
	if c.dead {
		return nil, errBadConn
	}
	// like go-sql-driver: a non-default isolation level is set for the next transaction first, READ ONLY is
	// part of the START TRANSACTION text
	if opts.Isolation != driver.IsolationLevel(sql.LevelDefault) {
		if _, _, err := c.statement("E", "SET TRANSACTION ISOLATION LEVEL "+strings.ToUpper(sql.IsolationLevel(opts.Isolation).String()), nil); err != nil {
			return nil, err
		}
	}
	text := "START TRANSACTION"
	if opts.ReadOnly {
		text += " READ ONLY"
	}
	idx, e, injected, drop := c.srv.begin(c, "BEGIN", text, nil)
	if injected != nil {
		if drop {
			c.kill()
			injected = mysql.ErrInvalidConn
		}
		c.srv.finish(idx, e.Seq, injected, 0, 0, nil, true)
		return nil, injected
	}
	c.srv.mu.Lock()
	err := c.beginLocked()
	if err == nil && c.tx != nil {
		c.tx.readOnly = opts.ReadOnly
	}
	c.srv.mu.Unlock()
	c.srv.finish(idx, e.Seq, err, 0, 0, nil, false)
	if err != nil {
		return nil, err
	}
	return &tx{c}, nil
}

type tx struct{ c *conn }

func (t *tx) end(kind string) error {
	c := t.c
	if c.dead {
		return mysql.ErrInvalidConn
	}
	idx, e, injected, drop := c.srv.begin(c, kind, kind, nil)
	if injected != nil {
		if drop {
			c.kill()
			injected = mysql.ErrInvalidConn
		} else {
			// a COMMIT (or ROLLBACK) the server answers with an error has ended the transaction by rolling it back
			c.srv.mu.Lock()
			_ = c.rollbackLocked()
			c.srv.mu.Unlock()
		}
		c.srv.finish(idx, e.Seq, injected, 0, 0, nil, true)
		return injected
	}
	c.srv.mu.Lock()
	var err error
	if kind == "COMMIT" {
		err = c.commitLocked()
	} else {
		err = c.rollbackLocked()
	}
	c.srv.mu.Unlock()
	c.srv.finish(idx, e.Seq, err, 0, 0, nil, false)
	return err
}

func (t *tx) Commit() error   { return t.end("COMMIT") }
func (t *tx) Rollback() error { return t.end("ROLLBACK") }

type result struct{ lastID, affected int64 }

func (r result) LastInsertId() (int64, error) { return r.lastID, nil }
func (r result) RowsAffected() (int64, error) { return r.affected, nil }

type stmt struct {
	c     *conn
	query string
	n     int
}

func (s *stmt) Close() error  { return nil }
func (s *stmt) NumInput() int { return s.n }

func namedOf(a []driver.Value) []driver.NamedValue {
	out := make([]driver.NamedValue, len(a))
	for i, v := range a {
		out[i] = driver.NamedValue{Ordinal: i + 1, Value: v}
	}
	return out
}

func (s *stmt) Exec(a []driver.Value) (driver.Result, error) {
	return s.ExecContext(context.Background(), namedOf(a))
}

func (s *stmt) Query(a []driver.Value) (driver.Rows, error) {
	return s.QueryContext(context.Background(), namedOf(a))
}

func (s *stmt) ExecContext(ctx context.Context, args []driver.NamedValue) (driver.Result, error) {
	_, res, err := s.c.statement("PE", s.query, args)
	if err != nil {
		return nil, err
	}
	if res == nil {
		res = &execResult{}
	}
	return result{res.lastID, res.affected}, nil
}

func (s *stmt) QueryContext(ctx context.Context, args []driver.NamedValue) (driver.Rows, error) {
	rs, _, err := s.c.statement("PQ", s.query, args)
	if err != nil {
		return nil, err
	}
	if rs == nil {
		rs = &resultSet{}
	}
	return &rows{rs: rs, binary: true, parseTime: s.c.parseTime, reuse: s.c.srv.bufferReuse()}, nil
}

func (s *stmt) CheckNamedValue(nv *driver.NamedValue) error { return s.c.CheckNamedValue(nv) }

// ---- rows ------------------------------------------------------------------------------------

type rows struct {
	rs        *resultSet
	i         int
	binary    bool
	parseTime bool
	// reuse: []byte cells are slices of buf, which is overwritten by the next Next / Close
	// (the contract of driver.Rows.Next that go-sql-driver makes use of with its read buffer)
	reuse bool
	buf   []byte
}

func (r *rows) bytesCell(b []byte) []byte {
	if !r.reuse {
		return append([]byte{}, b...)
	}
	start := len(r.buf)
	r.buf = append(r.buf, b...)
	return r.buf[start:len(r.buf):len(r.buf)]
}

func (r *rows) scribble() {
	if r.reuse {
		for i := range r.buf {
			r.buf[i] = 0xEE
		}
		r.buf = r.buf[:0]
	}
}

func (r *rows) Columns() []string {
	out := make([]string, len(r.rs.cols))
	for i, c := range r.rs.cols {
		out[i] = c.Name
	}
	return out
}
func (r *rows) Close() error { r.scribble(); r.i = len(r.rs.rows); return nil }

func formatTime(c *Column, t time.Time) string {
	if c.Type == "DATE" {
		return t.Format("2006-01-02")
	}
	if c.Length > 0 {
		return t.Format("2006-01-02 15:04:05." + strings.Repeat("0", c.Length))
	}
	return t.Format("2006-01-02 15:04:05")
}

func formatFloat(c *Column, f float64) string {
	switch c.Type {
	case "DECIMAL", "NUMERIC":
		return strconv.FormatFloat(f, 'f', c.Scale, 64)
	case "FLOAT":
		return strconv.FormatFloat(f, 'g', -1, 32)
	}
	return strconv.FormatFloat(f, 'g', -1, 64)
}

func (r *rows) Next(dest []driver.Value) error {
	r.scribble()
	if r.rs.failErr != nil && r.i >= r.rs.failAfter {
		return r.rs.failErr
	}
	if r.i >= len(r.rs.rows) {
		return io.EOF
	}
	if r.reuse && cap(r.buf) == 0 {
		r.buf = make([]byte, 0, 1<<16)
	}
	row := r.rs.rows[r.i]
	r.i++
	for i, v := range row {
		if i >= len(dest) {
			break // like go-sql-driver, which fills dest and nothing more
		}
		c := r.rs.cols[i]
		switch x := v.(type) {
		case nil:
			dest[i] = nil
		case int64:
			if r.binary {
				dest[i] = x
			} else {
				dest[i] = r.bytesCell([]byte(strconv.FormatInt(x, 10)))
			}
		case float64:
			switch {
			case !r.binary || c.Type == "DECIMAL" || c.Type == "NUMERIC":
				dest[i] = r.bytesCell([]byte(formatFloat(c, x)))
			case c.Type == "FLOAT":
				dest[i] = float32(x)
			default:
				dest[i] = x
			}
		case string:
			dest[i] = r.bytesCell([]byte(x))
		case []byte:
			dest[i] = r.bytesCell(x)
		case time.Time:
			if r.parseTime {
				dest[i] = x
			} else {
				dest[i] = r.bytesCell([]byte(formatTime(c, x)))
			}
		default:
			dest[i] = []byte(fmt.Sprint(x))
		}
	}
	return nil
}

func (r *rows) ColumnTypeDatabaseTypeName(i int) string { return r.rs.cols[i].Type }

func (r *rows) ColumnTypeNullable(i int) (nullable, ok bool) { return r.rs.cols[i].Nullable, true }

var (
	scanInt64    = reflect.TypeOf(int64(0))
	scanInt32    = reflect.TypeOf(int32(0))
	scanInt16    = reflect.TypeOf(int16(0))
	scanInt8     = reflect.TypeOf(int8(0))
	scanFloat32  = reflect.TypeOf(float32(0))
	scanFloat64  = reflect.TypeOf(float64(0))
	scanNullInt  = reflect.TypeOf(sql.NullInt64{})
	scanNullFlt  = reflect.TypeOf(sql.NullFloat64{})
	scanNullTime = reflect.TypeOf(sql.NullTime{})
	scanRawBytes = reflect.TypeOf(sql.RawBytes{})
)

func (r *rows) ColumnTypeScanType(i int) reflect.Type {
	c := r.rs.cols[i]
	switch c.Type {
	case "TINYINT":
		if c.Nullable {
			return scanNullInt
		}
		return scanInt8
	case "SMALLINT":
		if c.Nullable {
			return scanNullInt
		}
		return scanInt16
	case "MEDIUMINT", "INT", "INTEGER":
		if c.Nullable {
			return scanNullInt
		}
		return scanInt32
	case "BIGINT":
		if c.Nullable {
			return scanNullInt
		}
		return scanInt64
	case "FLOAT":
		if c.Nullable {
			return scanNullFlt
		}
		return scanFloat32
	case "DOUBLE":
		if c.Nullable {
			return scanNullFlt
		}
		return scanFloat64
	case "DATETIME", "TIMESTAMP", "DATE":
		return scanNullTime
	}
	return scanRawBytes
}
