// Package memsql is an in-process stand-in for "go-sql-driver/mysql 1.6 talking to MySQL 8" for
// the statement subset seata-go and the generated business programs use (DESIGN §4.1).
// It is a database/sql/driver backed by a small transactional engine: committed-read for plain
// SELECT, row locks for writes and locking reads (lock wait timeout → error 1205), statement
// atomicity, savepoints, XA branches, plus instrumentation for oracles (snapshots, per-statement
// write sets, a statement journal on the shared logical clock, fault plans, pause points).
package memsql

import (
	"fmt"
	"sort"
	"strings"
	"sync"
	"time"

	"github.com/go-sql-driver/mysql"
)

// Value is one cell: nil | int64 | float64 | string | []byte | time.Time.
type Value = interface{}

// Column describes a table column.
type Column struct {
	Name     string
	Type     string // upper-case DATA_TYPE: TINYINT SMALLINT INT BIGINT FLOAT DOUBLE DECIMAL CHAR VARCHAR TEXT DATETIME TIMESTAMP DATE VARBINARY BLOB ...
	Length   int    // display length / precision (0 = default)
	Scale    int
	Nullable bool
	HasDef   bool
	Default  Value
	AutoInc  bool
}

func (c *Column) kind() string {
	switch c.Type {
	case "TINYINT", "SMALLINT", "MEDIUMINT", "INT", "INTEGER", "BIGINT", "BIT", "YEAR":
		return "int"
	case "FLOAT", "DOUBLE", "DECIMAL", "NUMERIC", "REAL":
		return "float"
	case "CHAR", "VARCHAR", "TEXT", "TINYTEXT", "MEDIUMTEXT", "LONGTEXT", "JSON", "ENUM", "SET":
		return "string"
	case "DATETIME", "TIMESTAMP", "DATE":
		return "time"
	case "BINARY", "VARBINARY", "BLOB", "TINYBLOB", "MEDIUMBLOB", "LONGBLOB":
		return "bytes"
	}
	return "string"
}

func (c *Column) columnType() string {
	t := strings.ToLower(c.Type)
	switch {
	case c.Length > 0 && c.Scale > 0:
		return fmt.Sprintf("%s(%d,%d)", t, c.Length, c.Scale)
	case c.Length > 0:
		return fmt.Sprintf("%s(%d)", t, c.Length)
	}
	return t
}

type index struct {
	name   string
	cols   []int
	unique bool
}

type table struct {
	schema  string
	name    string
	cols    []*Column
	colIdx  map[string]int // lower-case name -> index
	pk      []int
	indexes []index // unique (and plain) secondary indexes
	rows    map[string]*row
	autoInc int64
	rowSeq  int64 // hidden row id for tables without primary key
}

type row struct {
	key        string
	committed  []Value // nil: no committed version
	pending    []Value // valid iff hasPending; nil = deleted in the owning transaction
	hasPending bool
	owner      *txn // transaction holding pending
	lockOwner  *txn // transaction holding the row lock
}

type undoRec struct {
	t          *table
	r          *row
	hadPending bool
	prev       []Value
	prevOwner  *txn
	created    bool // the row object was added to the table by this transaction
}

type txn struct {
	id         int
	conn       *conn
	log        []undoRec
	locks      []*row
	savepoints []savepoint
	xid        string // XA branch id when this is an XA transaction
	xaState    string // ACTIVE | IDLE | PREPARED
	writes     []Write
	readOnly   bool // START TRANSACTION READ ONLY
}

type savepoint struct {
	name   string
	pos    int
	nlocks int // row locks held when the savepoint was set: ROLLBACK TO never gives those back
}

// Write is one row-level effect of a statement (engine-side ground truth).
type Write struct {
	Stmt   int64 // journal sequence of the statement
	Table  string
	Op     string // insert | update | delete
	Key    string
	Before map[string]Value
	After  map[string]Value
}

type schema struct {
	name   string
	tables map[string]*table // upper-case name
}

// Server is one MySQL-like server with several schemas.
type Server struct {
	mu       sync.Mutex
	cond     *sync.Cond
	schemas  map[string]*schema
	version  string
	connSeq  int
	txSeq    int
	conns    map[int]*conn
	xa       map[string]*txn // XA branches by xid (active, idle or prepared)
	lockWait time.Duration

	journal []Entry
	faults  []*Fault
	pauses  []*Pause
	// JournalOn can be switched off for throughput (C20 soak).
	journalOn   bool
	autoIncStep int64
	bufReuse    bool
}

// SetBufferReuse switches the buffer-reuse mode of result sets on or off.
// SetAutoIncStep sets auto_increment_increment (generated keys are 1 + n*step).
func (s *Server) SetAutoIncStep(n int64) { s.mu.Lock(); s.autoIncStep = n; s.mu.Unlock() }

func (s *Server) SetBufferReuse(on bool) { s.mu.Lock(); s.bufReuse = on; s.mu.Unlock() }
func (s *Server) bufferReuse() bool      { s.mu.Lock(); defer s.mu.Unlock(); return s.bufReuse }

// NewServer creates a server advertising the given version (e.g. "8.0.30").
func NewServer(version string) *Server {
	s := &Server{schemas: map[string]*schema{}, version: version, conns: map[int]*conn{}, xa: map[string]*txn{}, lockWait: 300 * time.Millisecond, journalOn: true}
	s.cond = sync.NewCond(&s.mu)
	return s
}

func (s *Server) SetVersion(v string)         { s.mu.Lock(); s.version = v; s.mu.Unlock() }
func (s *Server) SetLockWait(d time.Duration) { s.mu.Lock(); s.lockWait = d; s.mu.Unlock() }
func (s *Server) SetJournal(on bool)          { s.mu.Lock(); s.journalOn = on; s.mu.Unlock() }

func myErr(n uint16, format string, a ...interface{}) error {
	return &mysql.MySQLError{Number: n, Message: fmt.Sprintf(format, a...)}
}

// CreateSchema adds a schema (database).
func (s *Server) CreateSchema(name string) {
	s.mu.Lock()
	defer s.mu.Unlock()
	if s.schemas[strings.ToLower(name)] == nil {
		s.schemas[strings.ToLower(name)] = &schema{name: name, tables: map[string]*table{}}
	}
}

func (s *Server) schema(name string) *schema { return s.schemas[strings.ToLower(name)] }

func (s *Server) lookup(sc, name string) (*table, error) {
	name = strings.Trim(name, "` ")
	if i := strings.Index(name, "."); i >= 0 {
		sc, name = strings.Trim(name[:i], "` "), strings.Trim(name[i+1:], "` ")
	}
	d := s.schema(sc)
	if d == nil {
		return nil, myErr(1049, "Unknown database '%s'", sc)
	}
	t := d.tables[strings.ToUpper(name)]
	if t == nil {
		return nil, myErr(1146, "Table '%s.%s' doesn't exist", sc, name)
	}
	return t, nil
}

// TableDef is the Go-level form of CREATE TABLE.
type TableDef struct {
	Name    string
	Cols    []Column
	PK      []string
	Uniques [][]string
}

// CreateTable creates a table in a schema.
func (s *Server) CreateTable(sc string, def TableDef) error {
	s.mu.Lock()
	defer s.mu.Unlock()
	return s.createTableLocked(sc, def)
}

func (s *Server) createTableLocked(sc string, def TableDef) error {
	d := s.schema(sc)
	if d == nil {
		return myErr(1049, "Unknown database '%s'", sc)
	}
	if d.tables[strings.ToUpper(def.Name)] != nil {
		return myErr(1050, "Table '%s' already exists", def.Name)
	}
	t := &table{schema: d.name, name: def.Name, colIdx: map[string]int{}, rows: map[string]*row{}, autoInc: 1}
	for i := range def.Cols {
		c := def.Cols[i]
		c.Type = strings.ToUpper(c.Type)
		t.colIdx[strings.ToLower(c.Name)] = len(t.cols)
		t.cols = append(t.cols, &c)
	}
	for _, n := range def.PK {
		i, ok := t.colIdx[strings.ToLower(n)]
		if !ok {
			return myErr(1072, "Key column '%s' doesn't exist in table", n)
		}
		t.cols[i].Nullable = false
		t.pk = append(t.pk, i)
	}
	for k, u := range def.Uniques {
		ix := index{name: fmt.Sprintf("uk_%d", k), unique: true}
		for _, n := range u {
			i, ok := t.colIdx[strings.ToLower(n)]
			if !ok {
				return myErr(1072, "Key column '%s' doesn't exist in table", n)
			}
			ix.cols = append(ix.cols, i)
		}
		t.indexes = append(t.indexes, ix)
	}
	d.tables[strings.ToUpper(def.Name)] = t
	return nil
}

// DropTable removes a table (no error if absent).
func (s *Server) DropTable(sc, name string) {
	s.mu.Lock()
	defer s.mu.Unlock()
	if d := s.schema(sc); d != nil {
		delete(d.tables, strings.ToUpper(name))
	}
}

// ---- snapshots -------------------------------------------------------------------------------

// Snapshot returns the committed contents of the named tables (all tables of the schema when none
// is named) as canonical strings: table -> sorted row renderings.
func (s *Server) Snapshot(sc string, names ...string) map[string][]string {
	s.mu.Lock()
	defer s.mu.Unlock()
	out := map[string][]string{}
	d := s.schema(sc)
	if d == nil {
		return out
	}
	want := map[string]bool{}
	for _, n := range names {
		want[strings.ToUpper(n)] = true
	}
	for up, t := range d.tables {
		if len(want) > 0 && !want[up] {
			continue
		}
		var rows []string
		for _, r := range t.rows {
			if r.committed != nil {
				rows = append(rows, renderRow(t, r.committed))
			}
		}
		sort.Strings(rows)
		out[up] = rows
	}
	return out
}

// Rows returns the committed rows of a table as maps (column -> value), in primary-key order.
func (s *Server) Rows(sc, name string) []map[string]Value {
	s.mu.Lock()
	defer s.mu.Unlock()
	t, err := s.lookup(sc, name)
	if err != nil {
		return nil
	}
	var out []map[string]Value
	for _, k := range sortedKeys(t) {
		r := t.rows[k]
		if r.committed != nil {
			out = append(out, rowMap(t, r.committed))
		}
	}
	return out
}

func rowMap(t *table, vals []Value) map[string]Value {
	if vals == nil {
		return nil
	}
	m := make(map[string]Value, len(vals))
	for i, c := range t.cols {
		m[c.Name] = vals[i]
	}
	return m
}

func renderValue(v Value) string {
	switch x := v.(type) {
	case nil:
		return "NULL"
	case int64:
		return fmt.Sprintf("i:%d", x)
	case float64:
		return fmt.Sprintf("f:%v", x)
	case string:
		return fmt.Sprintf("s:%q", x)
	case []byte:
		return fmt.Sprintf("b:%x", x)
	case time.Time:
		return "t:" + x.UTC().Format(time.RFC3339Nano)
	}
	return fmt.Sprintf("?:%v", v)
}

func renderRow(t *table, vals []Value) string {
	parts := make([]string, len(vals))
	for i, v := range vals {
		parts[i] = t.cols[i].Name + "=" + renderValue(v)
	}
	return strings.Join(parts, " ")
}

// RenderValue is exported for oracles that compare engine values.
func RenderValue(v Value) string { return renderValue(v) }

func sortedKeys(t *table) []string {
	keys := make([]string, 0, len(t.rows))
	for k := range t.rows {
		keys = append(keys, k)
	}
	// rows without any version (deleted, kept as lock holders) go last in key-text order: mixing them into the
	// value order would make the comparison inconsistent and the result depend on map iteration order
	var live, dead []string
	for _, k := range keys {
		if anyVersion(t.rows[k]) != nil {
			live = append(live, k)
		} else {
			dead = append(dead, k)
		}
	}
	sort.SliceStable(live, func(i, j int) bool {
		a, b := t.rows[live[i]], t.rows[live[j]]
		if lessKey(t, a, b) {
			return true
		}
		if lessKey(t, b, a) {
			return false
		}
		return a.key < b.key
	})
	sort.Strings(dead)
	return append(live, dead...)
}

// lessKey orders rows by primary-key value (clustered-index order), falling back to the key text.
func lessKey(t *table, a, b *row) bool {
	av, bv := anyVersion(a), anyVersion(b)
	if av != nil && bv != nil && len(t.pk) > 0 {
		for _, i := range t.pk {
			if c := compareValues(av[i], bv[i]); c != 0 {
				return c < 0
			}
		}
		return false
	}
	return a.key < b.key
}

func anyVersion(r *row) []Value {
	if r.hasPending && r.pending != nil {
		return r.pending
	}
	return r.committed
}

// Stats reports open connections and open engine transactions (leak probes).
func (s *Server) Stats() (conns, openTx, prepared int) {
	s.mu.Lock()
	defer s.mu.Unlock()
	for _, c := range s.conns {
		conns++
		if c.tx != nil {
			openTx++
		}
	}
	for _, t := range s.xa {
		if t.xaState == "PREPARED" {
			prepared++
		}
	}
	return
}

// OpenTxConns lists the ids of connections that currently have an open transaction.
func (s *Server) OpenTxConns() []int {
	s.mu.Lock()
	defer s.mu.Unlock()
	var ids []int
	for id, c := range s.conns {
		if c.tx != nil {
			ids = append(ids, id)
		}
	}
	sort.Ints(ids)
	return ids
}

// RowLocks returns, per connection id, the number of row locks its transaction holds.
// LockedRows returns, per connection id, the rows (TABLE:key text of the current version) its transaction has locked.
func (s *Server) LockedRows() map[int][]string {
	s.mu.Lock()
	defer s.mu.Unlock()
	out := map[int][]string{}
	for id, c := range s.conns {
		if c.tx == nil {
			continue
		}
		for _, r := range c.tx.locks {
			out[id] = append(out[id], r.key)
		}
	}
	return out
}

func (s *Server) RowLocks() map[int]int {
	s.mu.Lock()
	defer s.mu.Unlock()
	out := map[int]int{}
	for id, c := range s.conns {
		if c.tx != nil && len(c.tx.locks) > 0 {
			out[id] = len(c.tx.locks)
		}
	}
	return out
}

// KillOpenTransactions drops every connection that still has an open transaction (harness hygiene
// between cases, so that one defect does not cascade into the following cases); returns their ids.
func (s *Server) KillOpenTransactions() []int {
	s.mu.Lock()
	var victims []*conn
	for _, c := range s.conns {
		if c.tx != nil {
			victims = append(victims, c)
		}
	}
	s.mu.Unlock()
	var ids []int
	for _, c := range victims {
		ids = append(ids, c.id)
		c.kill()
	}
	s.mu.Lock()
	for id, t := range s.xa {
		s.rollbackTxn(t)
		delete(s.xa, id)
	}
	s.mu.Unlock()
	sort.Ints(ids)
	return ids
}

// XABranches returns the state (ACTIVE IDLE PREPARED) of every XA branch the server still knows.
func (s *Server) XABranches() map[string]string {
	s.mu.Lock()
	defer s.mu.Unlock()
	out := map[string]string{}
	for id, t := range s.xa {
		out[id] = t.xaState
	}
	return out
}

// ConnIDs returns the ids of the connections the server currently knows.
func (s *Server) ConnIDs() []int {
	s.mu.Lock()
	defer s.mu.Unlock()
	var out []int
	for id := range s.conns {
		out = append(out, id)
	}
	sort.Ints(out)
	return out
}
