package memsql

import (
	"fmt"
	"strings"

	"verifharness/jclock"
)

// Entry is one statement (or transaction verb) as seen by the server.
type Entry struct {
	Seq      int64 // logical clock shared with the coordinator journal
	Conn     int
	Tx       int    // engine transaction id (0 = none / autocommit statement gets its own id)
	Kind     string // Q E (connection-level text protocol) PQ PE (prepared) BEGIN COMMIT ROLLBACK CONNECT CLOSE
	Query    string
	Args     []Value
	Err      string
	Affected int64
	Rows     int
	Writes   []Write
	Injected bool // the error was injected by a fault plan
}

func (e Entry) String() string {
	q := strings.Join(strings.Fields(e.Query), " ")
	if len(q) > 160 {
		q = q[:160] + "…"
	}
	s := fmt.Sprintf("#%d c%d tx%d %-8s %s", e.Seq, e.Conn, e.Tx, e.Kind, q)
	if len(e.Args) > 0 {
		var a []string
		for _, v := range e.Args {
			r := renderValue(v)
			if len(r) > 40 {
				r = r[:40] + "…"
			}
			a = append(a, r)
		}
		s += " [" + strings.Join(a, ", ") + "]"
	}
	if e.Err != "" {
		s += " !! " + e.Err
	}
	return s
}

// Upper returns the whitespace-normalised upper-case text of the statement.
func (e Entry) Upper() string { return strings.ToUpper(strings.Join(strings.Fields(e.Query), " ")) }

// Fault makes statements fail. Match selects candidates; the first Skip matches pass, then the next
// Times matches (0 = 1) fail with Err (default: error 1205) or, when DropConn is set, with a lost
// connection (transaction rolled back by the server, connection unusable afterwards).
type Fault struct {
	Match    func(e *Entry) bool
	Skip     int
	Times    int
	Err      error
	DropConn bool
	// InRows: a matching query is executed (a locking read takes its locks) and fails while its result is
	// streamed, after AfterRows rows (error packet in the result set: query interrupted, max_execution_time);
	// the connection stays usable. Other statements fail at their start as usual.
	InRows    bool
	AfterRows int
	seen      int
	fired     int
}

type rowFault struct {
	err   error
	after int
}

func (r *rowFault) Error() string { return r.err.Error() }

// Fired reports how often the fault was injected.
func (f *Fault) Fired() int { return f.fired }

// Pause blocks a matching statement before it executes until Release is closed / signalled.
type Pause struct {
	Match   func(e *Entry) bool
	Hit     chan Entry    // receives the entry when a statement is parked (buffered by the caller)
	Release chan struct{} // statement continues when it can receive from / after close of this channel
	Once    bool
	done    bool
}

func (s *Server) AddFault(f *Fault) {
	s.mu.Lock()
	s.faults = append(s.faults, f)
	s.mu.Unlock()
}

func (s *Server) AddPause(p *Pause) {
	s.mu.Lock()
	s.pauses = append(s.pauses, p)
	s.mu.Unlock()
}

// ClearFaults removes all faults and pauses.
func (s *Server) ClearFaults() {
	s.mu.Lock()
	s.faults, s.pauses = nil, nil
	s.mu.Unlock()
}

// Journal returns a copy of the statement journal.
func (s *Server) Journal() []Entry {
	s.mu.Lock()
	defer s.mu.Unlock()
	return append([]Entry(nil), s.journal...)
}

// JournalSince returns the entries with Seq > seq.
func (s *Server) JournalSince(seq int64) []Entry {
	s.mu.Lock()
	defer s.mu.Unlock()
	var out []Entry
	for _, e := range s.journal {
		if e.Seq > seq {
			out = append(out, e)
		}
	}
	return out
}

// ResetJournal forgets the journal (tables stay).
func (s *Server) ResetJournal() {
	s.mu.Lock()
	s.journal = nil
	s.mu.Unlock()
}

// begin journals the start of a statement and applies pauses and faults. It is called without the
// server lock. The returned index addresses the entry for completion.
func (s *Server) begin(c *conn, kind, query string, args []Value) (idx int, e Entry, injected error, drop bool) {
	s.mu.Lock()
	e = Entry{Seq: jclock.Tick(), Conn: c.id, Kind: kind, Query: query, Args: args}
	if c.tx != nil {
		e.Tx = c.tx.id
	}
	var park *Pause
	for _, p := range s.pauses {
		if !p.done && p.Match(&e) {
			park = p
			if p.Once {
				p.done = true
			}
			break
		}
	}
	for _, f := range s.faults {
		if f.Match != nil && !f.Match(&e) {
			continue
		}
		f.seen++
		times := f.Times
		if times == 0 {
			times = 1
		}
		if f.seen > f.Skip && f.fired < times {
			f.fired++
			injected = f.Err
			if injected == nil {
				injected = myErr(1205, "Lock wait timeout exceeded; try restarting transaction (injected)")
			}
			drop = f.DropConn
			if f.InRows && (kind == "Q" || kind == "PQ") {
				if f.Err == nil {
					injected = myErr(1317, "Query execution was interrupted (injected)")
				}
				injected = &rowFault{injected, f.AfterRows}
				drop = false
			}
			break
		}
	}
	idx = -1
	if s.journalOn {
		s.journal = append(s.journal, e)
		idx = len(s.journal) - 1
	}
	s.mu.Unlock()
	if park != nil {
		if park.Hit != nil {
			park.Hit <- e
		}
		<-park.Release
	}
	return
}

func (s *Server) finish(idx int, seq int64, err error, affected int64, rows int, writes []Write, injected bool) {
	if idx < 0 {
		return
	}
	s.mu.Lock()
	if idx < len(s.journal) && s.journal[idx].Seq == seq {
		en := &s.journal[idx]
		if err != nil {
			en.Err = err.Error()
		}
		en.Affected, en.Rows, en.Writes, en.Injected = affected, rows, writes, injected
	}
	s.mu.Unlock()
}
