package memsql

import (
	"fmt"
	"regexp"
	"sort"
	"strings"
	"time"

	aparser "github.com/arana-db/parser"
	"github.com/arana-db/parser/ast"
	pmysql "github.com/arana-db/parser/mysql"
	_ "github.com/arana-db/parser/test_driver"
)

// resultSet is a fully materialised query result.
type resultSet struct {
	cols []*Column // column metadata (name + type)
	rows [][]Value
	// injected failure while the rows are streamed (see Fault.InRows)
	failErr   error
	failAfter int
}

type execResult struct {
	affected int64
	lastID   int64
}

// ---- transactions ----------------------------------------------------------------------------

func (s *Server) newTxn(c *conn) *txn {
	s.txSeq++
	return &txn{id: s.txSeq, conn: c}
}

func (t *txn) record(tb *table, r *row, created bool) {
	t.log = append(t.log, undoRec{t: tb, r: r, hadPending: r.hasPending, prev: r.pending, prevOwner: r.owner, created: created})
}

func (s *Server) rollbackTo(t *txn, pos int) {
	for i := len(t.log) - 1; i >= pos; i-- {
		u := t.log[i]
		u.r.hasPending, u.r.pending, u.r.owner = u.hadPending, u.prev, u.prevOwner
		if u.created && u.r.committed == nil && !u.r.hasPending {
			delete(u.t.rows, u.r.key)
		}
	}
	t.log = t.log[:pos]
}

func (s *Server) releaseLocks(t *txn) {
	for _, r := range t.locks {
		if r.lockOwner == t {
			r.lockOwner = nil
		}
	}
	t.locks = nil
	s.cond.Broadcast()
}

func (s *Server) commitTxn(t *txn) {
	for _, u := range t.log {
		r := u.r
		if r.hasPending && r.owner == t {
			r.committed, r.pending, r.hasPending, r.owner = r.pending, nil, false, nil
			if r.committed == nil {
				delete(u.t.rows, r.key)
			}
		}
	}
	t.log = nil
	s.releaseLocks(t)
	if t.xid != "" {
		delete(s.xa, t.xid)
	}
}

func (s *Server) rollbackTxn(t *txn) {
	s.rollbackTo(t, 0)
	s.releaseLocks(t)
	if t.xid != "" {
		delete(s.xa, t.xid)
	}
}

// lockRow acquires the row lock for t, waiting up to the lock wait timeout.
func (s *Server) lockRow(t *txn, r *row) error {
	if r.lockOwner == t {
		return nil
	}
	if r.lockOwner != nil {
		deadline := time.Now().Add(s.lockWait)
		timer := time.AfterFunc(s.lockWait+time.Millisecond, func() { s.mu.Lock(); s.cond.Broadcast(); s.mu.Unlock() })
		defer timer.Stop()
		for r.lockOwner != nil && r.lockOwner != t {
			if !time.Now().Before(deadline) {
				return myErr(1205, "Lock wait timeout exceeded; try restarting transaction")
			}
			s.cond.Wait()
		}
	}
	r.lockOwner = t
	t.locks = append(t.locks, r)
	return nil
}

// visible returns the version of r that transaction t reads (nil: row does not exist for t).
func visible(t *txn, r *row) []Value {
	if r.hasPending && r.owner == t {
		return r.pending
	}
	return r.committed
}

// ---- statement dispatch ----------------------------------------------------------------------

var (
	reSavepoint  = regexp.MustCompile(`(?i)^SAVEPOINT\s+(.+?)\s*;*$`)
	reRollbackTo = regexp.MustCompile(`(?i)^ROLLBACK\s+(?:WORK\s+)?TO\s+(?:SAVEPOINT\s+)?(.+?)\s*;*$`)
	reRelease    = regexp.MustCompile(`(?i)^RELEASE\s+SAVEPOINT\s+(.+?)\s*;*$`)
	reXA         = regexp.MustCompile(`(?i)^XA\s+(START|BEGIN|END|PREPARE|COMMIT|ROLLBACK|RECOVER)\b\s*(.*?)\s*;*$`)
	reShowVar    = regexp.MustCompile(`(?i)^SHOW\s+(?:GLOBAL\s+|SESSION\s+)?VARIABLES\s+LIKE\s+'([^']*)'`)
)

// run executes one statement text. Called without the server lock.
func (c *conn) run(query string, args []Value) (*resultSet, *execResult, []Write, error) {
	s := c.srv
	q := strings.TrimSpace(query)
	up := strings.ToUpper(q)
	s.mu.Lock()
	defer s.mu.Unlock()
	if c.dead {
		return nil, nil, nil, errBadConn
	}
	switch {
	case up == "BEGIN" || strings.HasPrefix(up, "START TRANSACTION") || up == "BEGIN;":
		return nil, &execResult{}, nil, c.beginLocked()
	case up == "COMMIT" || up == "COMMIT;":
		return nil, &execResult{}, nil, c.commitLocked()
	case up == "ROLLBACK" || up == "ROLLBACK;":
		return nil, &execResult{}, nil, c.rollbackLocked()
	case strings.HasPrefix(up, "SET "):
		return nil, &execResult{}, nil, nil
	case strings.HasPrefix(up, "XA "):
		m := reXA.FindStringSubmatch(q)
		if m == nil {
			return nil, nil, nil, myErr(1064, "You have an error in your SQL syntax near '%s'", q)
		}
		return c.xaLocked(strings.ToUpper(m[1]), m[2])
	}
	if m := reSavepoint.FindStringSubmatch(q); m != nil {
		if c.tx != nil {
			c.tx.savepoints = append(c.tx.savepoints, savepoint{normIdent(m[1]), len(c.tx.log), len(c.tx.locks)})
		}
		return nil, &execResult{}, nil, nil
	}
	if m := reRollbackTo.FindStringSubmatch(q); m != nil {
		name := normIdent(m[1])
		if c.tx != nil {
			for i := len(c.tx.savepoints) - 1; i >= 0; i-- {
				if c.tx.savepoints[i].name == name {
					s.rollbackTo(c.tx, c.tx.savepoints[i].pos)
					c.tx.savepoints = c.tx.savepoints[:i+1]
					// models the observable effect the AT client relies on: "ROLLBACK TO gives back the row locks
					// of the rolled-back statements" — locks taken after the savepoint on rows the remaining
					// undo log does not reference; a lock taken before the savepoint stays
					s.releaseUnreferencedLocks(c.tx, c.tx.savepoints[i].nlocks)
					return nil, &execResult{}, nil, nil
				}
			}
		}
		return nil, nil, nil, myErr(1305, "SAVEPOINT %s does not exist", m[1])
	}
	if m := reRelease.FindStringSubmatch(q); m != nil {
		name := normIdent(m[1])
		if c.tx != nil {
			for i := len(c.tx.savepoints) - 1; i >= 0; i-- {
				if c.tx.savepoints[i].name == name {
					c.tx.savepoints = c.tx.savepoints[:i]
					return nil, &execResult{}, nil, nil
				}
			}
		}
		return nil, nil, nil, myErr(1305, "SAVEPOINT %s does not exist", m[1])
	}
	if m := reShowVar.FindStringSubmatch(q); m != nil {
		rs := &resultSet{cols: []*Column{{Name: "Variable_name", Type: "VARCHAR"}, {Name: "Value", Type: "VARCHAR"}}}
		step := s.autoIncStep
		if step < 1 {
			step = 1
		}
		vars := map[string]string{"auto_increment_increment": fmt.Sprint(step), "auto_increment_offset": "1", "version": s.version}
		for k, v := range vars {
			if likeMatch(k, m[1]) {
				rs.rows = append(rs.rows, []Value{k, v})
			}
		}
		return rs, nil, nil, nil
	}
	if strings.Contains(up, "INFORMATION_SCHEMA") {
		return c.infoSchema(up, args)
	}
	stmts, err := parseSQL(q)
	if err != nil {
		return nil, nil, nil, myErr(1064, "You have an error in your SQL syntax; %v", err)
	}
	if len(stmts) == 0 {
		return nil, &execResult{}, nil, nil
	}
	if len(stmts) > 1 && !c.multi {
		return nil, nil, nil, myErr(1064, "You have an error in your SQL syntax; multiple statements are not enabled")
	}
	var rs *resultSet
	var res *execResult
	var writes []Write
	argOff := 0
	for _, st := range stmts {
		n := countMarkers(st)
		var sub []Value
		if argOff+n <= len(args) {
			sub = args[argOff : argOff+n]
		} else if argOff < len(args) {
			sub = args[argOff:]
		}
		argOff += n
		renumber(st)
		r1, r2, w, err := c.execStmt(st, sub)
		writes = append(writes, w...)
		if err != nil {
			return nil, nil, writes, err
		}
		if rs == nil && res == nil {
			rs, res = r1, r2 // like the driver: the first result is what the caller sees
		}
	}
	return rs, res, writes, nil
}

func normIdent(s string) string { return strings.ToLower(strings.Trim(strings.TrimSpace(s), "`")) }

func (s *Server) releaseUnreferencedLocks(t *txn, from int) {
	ref := map[*row]bool{}
	for _, u := range t.log {
		ref[u.r] = true
	}
	if from > len(t.locks) {
		from = len(t.locks)
	}
	kept := t.locks[:from]
	for _, r := range t.locks[from:] {
		if ref[r] {
			kept = append(kept, r)
		} else if r.lockOwner == t {
			r.lockOwner = nil
		}
	}
	t.locks = kept
	s.cond.Broadcast()
}

func (c *conn) beginLocked() error {
	if c.tx != nil {
		if c.tx.xid != "" {
			return myErr(1399, "XAER_RMFAIL: The command cannot be executed when global transaction is in the %s state", c.tx.xaState)
		}
		c.srv.commitTxn(c.tx) // implicit commit
	}
	c.tx = c.srv.newTxn(c)
	return nil
}

func (c *conn) commitLocked() error {
	if c.tx != nil {
		if c.tx.xid != "" {
			return myErr(1399, "XAER_RMFAIL: The command cannot be executed when global transaction is in the %s state", c.tx.xaState)
		}
		c.srv.commitTxn(c.tx)
		c.tx = nil
	}
	return nil
}

func (c *conn) rollbackLocked() error {
	if c.tx != nil {
		if c.tx.xid != "" {
			return myErr(1399, "XAER_RMFAIL: The command cannot be executed when global transaction is in the %s state", c.tx.xaState)
		}
		c.srv.rollbackTxn(c.tx)
		c.tx = nil
	}
	return nil
}

// ---- XA --------------------------------------------------------------------------------------

func normXid(s string) string { return strings.Join(strings.Fields(strings.TrimSpace(s)), "") }

func (s *Server) versionAtLeast(maj, min, patch int) bool {
	var a, b, c int
	fmt.Sscanf(s.version, "%d.%d.%d", &a, &b, &c)
	if a != maj {
		return a > maj
	}
	if b != min {
		return b > min
	}
	return c >= patch
}

func (c *conn) xaLocked(verb, rest string) (*resultSet, *execResult, []Write, error) {
	s := c.srv
	ok := &execResult{}
	onePhase := false
	if i := strings.Index(strings.ToUpper(rest), "ONE PHASE"); i >= 0 {
		onePhase = true
		rest = rest[:i]
	}
	for _, kw := range []string{" JOIN", " RESUME", " SUSPEND"} {
		if strings.HasSuffix(strings.ToUpper(rest), kw) {
			rest = rest[:len(rest)-len(kw)]
		}
	}
	xid := normXid(rest)
	switch verb {
	case "RECOVER":
		rs := &resultSet{cols: []*Column{{Name: "formatID", Type: "INT"}, {Name: "gtrid_length", Type: "INT"}, {Name: "bqual_length", Type: "INT"}, {Name: "data", Type: "VARCHAR"}}}
		var ids []string
		for id, t := range s.xa {
			if t.xaState == "PREPARED" {
				ids = append(ids, id)
			}
		}
		sort.Strings(ids)
		for _, id := range ids {
			g, b := splitXid(id)
			rs.rows = append(rs.rows, []Value{int64(1), int64(len(g)), int64(len(b)), g + b})
		}
		return rs, nil, nil, nil
	case "START", "BEGIN":
		if c.tx != nil {
			if c.tx.xid != "" {
				return nil, nil, nil, myErr(1399, "XAER_RMFAIL: The command cannot be executed when global transaction is in the %s state", c.tx.xaState)
			}
			return nil, nil, nil, myErr(1400, "XAER_OUTSIDE: Some work is done outside global transaction")
		}
		if xid == "" {
			return nil, nil, nil, myErr(1064, "You have an error in your SQL syntax near 'XA START'")
		}
		if s.xa[xid] != nil {
			return nil, nil, nil, myErr(1440, "XAER_DUPID: The XID already exists")
		}
		t := s.newTxn(c)
		t.xid, t.xaState = xid, "ACTIVE"
		s.xa[xid] = t
		c.tx = t
		return nil, ok, nil, nil
	case "END":
		if c.tx == nil || c.tx.xid != xid {
			return nil, nil, nil, myErr(1397, "XAER_NOTA: Unknown XID")
		}
		if c.tx.xaState != "ACTIVE" {
			return nil, nil, nil, myErr(1399, "XAER_RMFAIL: The command cannot be executed when global transaction is in the %s state", c.tx.xaState)
		}
		c.tx.xaState = "IDLE"
		return nil, ok, nil, nil
	case "PREPARE":
		if c.tx == nil || c.tx.xid != xid {
			return nil, nil, nil, myErr(1397, "XAER_NOTA: Unknown XID")
		}
		if c.tx.xaState != "IDLE" {
			return nil, nil, nil, myErr(1399, "XAER_RMFAIL: The command cannot be executed when global transaction is in the %s state", c.tx.xaState)
		}
		c.tx.xaState = "PREPARED"
		if s.versionAtLeast(8, 0, 29) {
			c.tx.conn = nil
			c.tx = nil // the branch is detached: any connection may finish it
		}
		return nil, ok, nil, nil
	case "COMMIT", "ROLLBACK":
		t := s.xa[xid]
		if t == nil {
			return nil, nil, nil, myErr(1397, "XAER_NOTA: Unknown XID")
		}
		if c.tx != nil && c.tx != t {
			return nil, nil, nil, myErr(1399, "XAER_RMFAIL: The command cannot be executed when global transaction is in the %s state", c.tx.xaState)
		}
		if t.conn != nil && t.conn != c {
			// attached to another live session (not prepared, or pre-8.0.29 server)
			return nil, nil, nil, myErr(1397, "XAER_NOTA: Unknown XID")
		}
		switch {
		case verb == "COMMIT" && t.xaState == "PREPARED" && !onePhase:
		case verb == "COMMIT" && t.xaState == "IDLE" && onePhase:
		case verb == "ROLLBACK" && (t.xaState == "PREPARED" || t.xaState == "IDLE"):
		default:
			return nil, nil, nil, myErr(1399, "XAER_RMFAIL: The command cannot be executed when global transaction is in the %s state", t.xaState)
		}
		if verb == "COMMIT" {
			s.commitTxn(t)
		} else {
			s.rollbackTxn(t)
		}
		if c.tx == t {
			c.tx = nil
		}
		return nil, ok, nil, nil
	}
	return nil, nil, nil, myErr(1064, "You have an error in your SQL syntax near 'XA'")
}

func splitXid(id string) (gtrid, bqual string) {
	parts := strings.Split(id, ",")
	un := func(s string) string { return strings.Trim(s, "'\"") }
	if len(parts) >= 2 {
		return un(parts[0]), un(parts[1])
	}
	return un(id), ""
}

// ---- information schema ----------------------------------------------------------------------

func (c *conn) infoSchema(up string, args []Value) (*resultSet, *execResult, []Write, error) {
	if len(args) < 2 {
		return nil, nil, nil, myErr(1235, "memsql: INFORMATION_SCHEMA query needs schema and table arguments")
	}
	sc, _ := asString(coerceToString(args[0]))
	tn, _ := asString(coerceToString(args[1]))
	d := c.srv.schema(sc)
	var t *table
	if d != nil {
		t = d.tables[strings.ToUpper(strings.Trim(tn, "` "))]
	}
	str := func(n string) *Column { return &Column{Name: n, Type: "VARCHAR", Nullable: true} }
	switch {
	case strings.Contains(up, "COLUMNS"):
		rs := &resultSet{cols: []*Column{str("TABLE_NAME"), str("TABLE_SCHEMA"), str("COLUMN_NAME"), str("DATA_TYPE"), str("COLUMN_TYPE"), str("COLUMN_KEY"), str("IS_NULLABLE"), {Name: "COLUMN_DEFAULT", Type: "TEXT", Nullable: true}, str("EXTRA")}}
		if t == nil {
			return rs, nil, nil, nil
		}
		for i, col := range t.cols {
			key := ""
			for _, p := range t.pk {
				if p == i {
					key = "PRI"
				}
			}
			if key == "" {
				for _, ix := range t.indexes {
					if ix.unique && len(ix.cols) > 0 && ix.cols[0] == i {
						key = "UNI"
					}
				}
			}
			null := "NO"
			if col.Nullable {
				null = "YES"
			}
			var def Value
			if col.HasDef && col.Default != nil {
				ds, _ := asString(coerceToString(col.Default))
				def = ds
			}
			extra := ""
			if col.AutoInc {
				extra = "auto_increment"
			}
			rs.rows = append(rs.rows, []Value{t.name, t.schema, col.Name, strings.ToLower(col.Type), col.columnType(), key, null, def, extra})
		}
		return rs, nil, nil, nil
	case strings.Contains(up, "STATISTICS"):
		rs := &resultSet{cols: []*Column{str("INDEX_NAME"), str("COLUMN_NAME"), {Name: "NON_UNIQUE", Type: "BIGINT"}}}
		if t == nil {
			return rs, nil, nil, nil
		}
		for _, p := range t.pk {
			rs.rows = append(rs.rows, []Value{"PRIMARY", t.cols[p].Name, int64(0)})
		}
		for _, ix := range t.indexes {
			nu := int64(1)
			if ix.unique {
				nu = 0
			}
			for _, ci := range ix.cols {
				rs.rows = append(rs.rows, []Value{ix.name, t.cols[ci].Name, nu})
			}
		}
		return rs, nil, nil, nil
	}
	return nil, nil, nil, myErr(1235, "memsql: unsupported INFORMATION_SCHEMA query")
}

// ---- AST statements --------------------------------------------------------------------------

type markerCounter struct{ n int }

func (m *markerCounter) Enter(n ast.Node) (ast.Node, bool) {
	if _, ok := n.(interface{ SetOrder(int) }); ok {
		m.n++
	}
	return n, false
}
func (m *markerCounter) Leave(n ast.Node) (ast.Node, bool) { return n, true }

func countMarkers(st ast.StmtNode) int {
	m := &markerCounter{}
	st.Accept(m)
	return m.n
}

type renumberer struct{ n int }

func (m *renumberer) Enter(n ast.Node) (ast.Node, bool) {
	if p, ok := n.(interface{ SetOrder(int) }); ok {
		p.SetOrder(m.n)
		m.n++
	}
	return n, false
}
func (m *renumberer) Leave(n ast.Node) (ast.Node, bool) { return n, true }

// renumber makes parameter orders local to the statement (multi-statement texts).
func renumber(st ast.StmtNode) { st.Accept(&renumberer{}) }

// inStmtTx runs f inside the connection's transaction, or inside an implicit one (autocommit),
// with statement-level atomicity.
func (c *conn) inStmtTx(f func(t *txn) error) error {
	s := c.srv
	auto := c.tx == nil
	t := c.tx
	if auto {
		t = s.newTxn(c)
	} else if t.xid != "" && t.xaState != "ACTIVE" {
		return myErr(1399, "XAER_RMFAIL: The command cannot be executed when global transaction is in the %s state", t.xaState)
	}
	mark := len(t.log)
	err := f(t)
	if err != nil {
		s.rollbackTo(t, mark)
	}
	if auto {
		if err == nil {
			s.commitTxn(t)
		} else {
			s.rollbackTxn(t)
		}
	}
	return err
}

func tableNameOf(refs *ast.TableRefsClause) (string, error) {
	if refs == nil || refs.TableRefs == nil {
		return "", myErr(1064, "memsql: statement without table")
	}
	var find func(n ast.ResultSetNode) *ast.TableName
	find = func(n ast.ResultSetNode) *ast.TableName {
		switch x := n.(type) {
		case *ast.TableSource:
			return find(x.Source)
		case *ast.TableName:
			return x
		case *ast.Join:
			if x.Right != nil {
				return nil
			}
			return find(x.Left)
		}
		return nil
	}
	tn := find(refs.TableRefs)
	if tn == nil {
		return "", myErr(1235, "memsql: joins and subqueries are not supported")
	}
	if tn.Schema.O != "" {
		return tn.Schema.O + "." + tn.Name.O, nil
	}
	return tn.Name.O, nil
}

func (c *conn) execStmt(st ast.StmtNode, args []Value) (*resultSet, *execResult, []Write, error) {
	switch x := st.(type) {
	case *ast.SelectStmt:
		rs, err := c.execSelect(x, args)
		return rs, nil, nil, err
	case *ast.InsertStmt:
		return c.execInsert(x, args)
	case *ast.UpdateStmt:
		return c.execUpdate(x, args)
	case *ast.DeleteStmt:
		return c.execDelete(x, args)
	case *ast.CreateTableStmt:
		if c.tx != nil && c.tx.xid == "" {
			c.srv.commitTxn(c.tx) // implicit commit
			c.tx = nil
		}
		def, err := tableDefFromAST(x)
		if err != nil {
			return nil, nil, nil, err
		}
		sc := c.schema
		if x.Table.Schema.O != "" {
			sc = x.Table.Schema.O
		}
		if x.IfNotExists {
			if d := c.srv.schema(sc); d != nil && d.tables[strings.ToUpper(def.Name)] != nil {
				return nil, &execResult{}, nil, nil
			}
		}
		return nil, &execResult{}, nil, c.srv.createTableLocked(sc, def)
	case *ast.DropTableStmt:
		if c.tx != nil && c.tx.xid == "" {
			c.srv.commitTxn(c.tx)
			c.tx = nil
		}
		for _, tn := range x.Tables {
			sc := c.schema
			if tn.Schema.O != "" {
				sc = tn.Schema.O
			}
			d := c.srv.schema(sc)
			if d == nil || d.tables[strings.ToUpper(tn.Name.O)] == nil {
				if x.IfExists {
					continue
				}
				return nil, nil, nil, myErr(1051, "Unknown table '%s.%s'", sc, tn.Name.O)
			}
			delete(d.tables, strings.ToUpper(tn.Name.O))
		}
		return nil, &execResult{}, nil, nil
	case *ast.BeginStmt:
		return nil, &execResult{}, nil, c.beginLocked()
	case *ast.CommitStmt:
		return nil, &execResult{}, nil, c.commitLocked()
	case *ast.RollbackStmt:
		return nil, &execResult{}, nil, c.rollbackLocked()
	case *ast.SetStmt, *ast.UseStmt:
		return nil, &execResult{}, nil, nil
	}
	return nil, nil, nil, myErr(1235, "memsql: unsupported statement %T", st)
}

func tableDefFromAST(x *ast.CreateTableStmt) (TableDef, error) {
	def := TableDef{Name: x.Table.Name.O}
	for _, cd := range x.Cols {
		col := Column{Name: cd.Name.Name.O, Nullable: true}
		tp := cd.Tp
		col.Type = strings.ToUpper(typeName(tp.Tp, tp.Charset == "binary" || pmysql.HasBinaryFlag(tp.Flag), tp.Flen))
		if tp.Flen > 0 {
			col.Length = tp.Flen
		}
		if tp.Decimal > 0 {
			col.Scale = tp.Decimal
		}
		switch col.Type {
		case "DATETIME", "TIMESTAMP":
			col.Length = 0
			if tp.Decimal > 0 {
				col.Length = tp.Decimal
			}
			col.Scale = 0
		case "INT", "BIGINT", "TINYINT", "SMALLINT", "MEDIUMINT", "DATE", "TEXT", "BLOB", "DOUBLE", "FLOAT":
			col.Length, col.Scale = 0, 0
		case "DECIMAL":
			if tp.Flen <= 0 {
				col.Length = 10
			}
		}
		for _, o := range cd.Options {
			switch o.Tp {
			case ast.ColumnOptionNotNull:
				col.Nullable = false
			case ast.ColumnOptionNull:
				col.Nullable = true
			case ast.ColumnOptionAutoIncrement:
				col.AutoInc = true
			case ast.ColumnOptionPrimaryKey:
				def.PK = append(def.PK, col.Name)
				col.Nullable = false
			case ast.ColumnOptionUniqKey:
				def.Uniques = append(def.Uniques, []string{col.Name})
			case ast.ColumnOptionDefaultValue:
				e := &evalCtx{now: time.Now()}
				v, err := e.eval(o.Expr)
				if err != nil {
					return def, err
				}
				if v != nil {
					cv, err := convertForColumn(&col, v)
					if err != nil {
						return def, err
					}
					v = cv
				}
				col.HasDef, col.Default = true, v
			}
		}
		def.Cols = append(def.Cols, col)
	}
	for _, cons := range x.Constraints {
		var names []string
		for _, k := range cons.Keys {
			if k.Column != nil {
				names = append(names, k.Column.Name.O)
			}
		}
		switch cons.Tp {
		case ast.ConstraintPrimaryKey:
			def.PK = names
		case ast.ConstraintUniq, ast.ConstraintUniqKey, ast.ConstraintUniqIndex:
			def.Uniques = append(def.Uniques, names)
		}
	}
	return def, nil
}

func typeName(tp byte, binary bool, flen int) string {
	switch tp {
	case pmysql.TypeTiny:
		return "TINYINT"
	case pmysql.TypeShort:
		return "SMALLINT"
	case pmysql.TypeInt24:
		return "MEDIUMINT"
	case pmysql.TypeLong:
		return "INT"
	case pmysql.TypeLonglong:
		return "BIGINT"
	case pmysql.TypeFloat:
		return "FLOAT"
	case pmysql.TypeDouble:
		return "DOUBLE"
	case pmysql.TypeNewDecimal, pmysql.TypeUnspecified:
		return "DECIMAL"
	case pmysql.TypeString:
		if binary {
			return "BINARY"
		}
		return "CHAR"
	case pmysql.TypeVarchar, pmysql.TypeVarString:
		if binary {
			return "VARBINARY"
		}
		return "VARCHAR"
	case pmysql.TypeBlob, pmysql.TypeTinyBlob, pmysql.TypeMediumBlob, pmysql.TypeLongBlob:
		if binary {
			return "BLOB"
		}
		return "TEXT"
	case pmysql.TypeDatetime:
		return "DATETIME"
	case pmysql.TypeTimestamp:
		return "TIMESTAMP"
	case pmysql.TypeDate, pmysql.TypeNewDate:
		return "DATE"
	case pmysql.TypeJSON:
		return "JSON"
	case pmysql.TypeBit:
		return "BIT"
	case pmysql.TypeYear:
		return "YEAR"
	}
	return "VARCHAR"
}

// candidate rows in clustered order; rows may appear or vanish while we wait for locks, so callers
// re-check by key.
func (c *conn) scanKeys(t *table) []string { return sortedKeys(t) }

func (c *conn) matchRow(t *table, vals []Value, where ast.ExprNode, args []Value) (bool, error) {
	if where == nil {
		return true, nil
	}
	e := &evalCtx{t: t, row: vals, args: args, now: time.Now()}
	v, err := e.eval(where)
	if err != nil {
		return false, err
	}
	b, null := truthy(v)
	return b && !null, nil
}

type matched struct {
	r    *row
	vals []Value
}

// collect returns the rows matching where. When lock is set (current read) each candidate's lock is
// acquired before its latest version is evaluated; rows that do not match are unlocked again.
func (c *conn) collect(tx *txn, t *table, where ast.ExprNode, args []Value, lock bool, order *ast.OrderByClause, limit *ast.Limit) ([]matched, error) {
	s := c.srv
	var out []matched
	for _, k := range c.scanKeys(t) {
		r := t.rows[k]
		if r == nil {
			continue
		}
		if lock {
			// cheap pre-check on the version we can see without waiting: skip rows that cannot match and
			// are not being changed by someone else
			// like an index lookup: a row is only waited for when the version we can see, or the
			// uncommitted version its current writer holds, could match
			possible := false
			for _, v := range [][]Value{visible(tx, r), r.pending} {
				if v == nil {
					continue
				}
				ok, err := c.matchRow(t, v, where, args)
				if err != nil {
					return nil, err
				}
				possible = possible || ok
			}
			if !possible {
				continue
			}
			had := r.lockOwner == tx
			if err := s.lockRow(tx, r); err != nil {
				return nil, err
			}
			if t.rows[k] != r { // row object vanished while waiting
				continue
			}
			v := visible(tx, r)
			ok := v != nil
			if ok {
				var err error
				ok, err = c.matchRow(t, v, where, args)
				if err != nil {
					return nil, err
				}
			}
			if !ok {
				if !had {
					r.lockOwner = nil
					tx.locks = tx.locks[:len(tx.locks)-1]
					s.cond.Broadcast()
				}
				continue
			}
			out = append(out, matched{r, v})
			continue
		}
		v := visible(tx, r)
		if v == nil {
			continue
		}
		ok, err := c.matchRow(t, v, where, args)
		if err != nil {
			return nil, err
		}
		if ok {
			out = append(out, matched{r, v})
		}
	}
	if order != nil {
		var oerr error
		sort.SliceStable(out, func(i, j int) bool {
			for _, it := range order.Items {
				ei := &evalCtx{t: t, row: out[i].vals, args: args}
				ej := &evalCtx{t: t, row: out[j].vals, args: args}
				a, err := ei.eval(it.Expr)
				if err != nil {
					oerr = err
				}
				b, err := ej.eval(it.Expr)
				if err != nil {
					oerr = err
				}
				cmp := compareValues(a, b)
				if cmp != 0 {
					if it.Desc {
						return cmp > 0
					}
					return cmp < 0
				}
			}
			return false
		})
		if oerr != nil {
			return nil, oerr
		}
	}
	if limit != nil {
		e := &evalCtx{args: args}
		off := int64(0)
		if limit.Offset != nil {
			v, err := e.eval(limit.Offset)
			if err != nil {
				return nil, err
			}
			f, _ := toFloat(v)
			off = int64(f)
		}
		cnt := int64(len(out))
		if limit.Count != nil {
			v, err := e.eval(limit.Count)
			if err != nil {
				return nil, err
			}
			f, _ := toFloat(v)
			cnt = int64(f)
		}
		if off > int64(len(out)) {
			off = int64(len(out))
		}
		end := off + cnt
		if end > int64(len(out)) {
			end = int64(len(out))
		}
		if lock {
			// rows beyond the limit are not part of the result: release the locks we took for them
			for i, m := range out {
				if int64(i) < off || int64(i) >= end {
					c.unlockIfUnreferenced(tx, m.r)
				}
			}
		}
		out = out[off:end]
	}
	return out, nil
}

func (c *conn) unlockIfUnreferenced(tx *txn, r *row) {
	for _, u := range tx.log {
		if u.r == r {
			return
		}
	}
	if r.lockOwner == tx {
		r.lockOwner = nil
		for i, x := range tx.locks {
			if x == r {
				tx.locks = append(tx.locks[:i], tx.locks[i+1:]...)
				break
			}
		}
		c.srv.cond.Broadcast()
	}
}

func (c *conn) execSelect(x *ast.SelectStmt, args []Value) (*resultSet, error) {
	now := time.Now()
	if x.From == nil {
		rs := &resultSet{}
		var row []Value
		for _, f := range x.Fields.Fields {
			e := &evalCtx{args: args, now: now}
			var v Value
			var err error
			if fc, ok := f.Expr.(*ast.FuncCallExpr); ok && strings.EqualFold(fc.FnName.O, "VERSION") {
				v = c.srv.version
			} else if v, err = e.eval(f.Expr); err != nil {
				return nil, err
			}
			name := f.AsName.O
			if name == "" {
				name = f.Text()
			}
			rs.cols = append(rs.cols, &Column{Name: name, Type: typeOfValue(v), Nullable: true})
			row = append(row, v)
		}
		rs.rows = [][]Value{row}
		return rs, nil
	}
	tn, err := tableNameOf(x.From)
	if err != nil {
		return nil, err
	}
	t, err := c.srv.lookup(c.schema, tn)
	if err != nil {
		return nil, err
	}
	lock := x.LockInfo != nil && (x.LockInfo.LockType == ast.SelectLockForUpdate || x.LockInfo.LockType == ast.SelectLockForShare || x.LockInfo.LockType == ast.SelectLockForUpdateNoWait)
	// projection
	type proj struct {
		col  int
		expr ast.ExprNode
		name string
	}
	var ps []proj
	count := false
	for _, f := range x.Fields.Fields {
		if f.WildCard != nil {
			for i, col := range t.cols {
				ps = append(ps, proj{col: i, name: col.Name})
			}
			continue
		}
		if cn, ok := f.Expr.(*ast.ColumnNameExpr); ok {
			if cn.Name.Name.O == "*" { // seata builds "*" as a column name
				for i, col := range t.cols {
					ps = append(ps, proj{col: i, name: col.Name})
				}
				continue
			}
			i, ok := t.colIdx[cn.Name.Name.L]
			if !ok {
				return nil, myErr(1054, "Unknown column '%s' in 'field list'", cn.Name.Name.O)
			}
			name := t.cols[i].Name
			if f.AsName.O != "" {
				name = f.AsName.O
			}
			ps = append(ps, proj{col: i, name: name})
			continue
		}
		if ag, ok := f.Expr.(*ast.AggregateFuncExpr); ok && strings.EqualFold(ag.F, "count") {
			count = true
			ps = append(ps, proj{col: -2, name: "count(*)"})
			continue
		}
		name := f.AsName.O
		if name == "" {
			name = f.Text()
		}
		ps = append(ps, proj{col: -1, expr: f.Expr, name: name})
	}
	var ms []matched
	run := func(tx *txn) error {
		var err error
		ms, err = c.collect(tx, t, x.Where, args, lock, x.OrderBy, x.Limit)
		return err
	}
	if lock {
		err = c.inStmtTx(run)
	} else {
		tx := c.tx
		if tx != nil && tx.xid != "" && tx.xaState != "ACTIVE" {
			return nil, myErr(1399, "XAER_RMFAIL: The command cannot be executed when global transaction is in the %s state", tx.xaState)
		}
		err = run(tx)
	}
	if err != nil {
		return nil, err
	}
	rs := &resultSet{}
	for _, p := range ps {
		switch {
		case p.col >= 0:
			col := *t.cols[p.col]
			col.Name = p.name
			rs.cols = append(rs.cols, &col)
		case p.col == -2:
			rs.cols = append(rs.cols, &Column{Name: p.name, Type: "BIGINT"})
		default:
			rs.cols = append(rs.cols, &Column{Name: p.name, Type: "VARCHAR", Nullable: true})
		}
	}
	if count {
		rs.rows = [][]Value{{int64(len(ms))}}
		return rs, nil
	}
	for _, m := range ms {
		row := make([]Value, len(ps))
		for i, p := range ps {
			if p.col >= 0 {
				row[i] = m.vals[p.col]
				continue
			}
			e := &evalCtx{t: t, row: m.vals, args: args, now: now}
			v, err := e.eval(p.expr)
			if err != nil {
				return nil, err
			}
			row[i] = v
			if len(rs.rows) == 0 {
				rs.cols[i].Type = typeOfValue(v)
			}
		}
		rs.rows = append(rs.rows, row)
	}
	return rs, nil
}

func typeOfValue(v Value) string {
	switch v.(type) {
	case int64:
		return "BIGINT"
	case float64:
		return "DOUBLE"
	case time.Time:
		return "DATETIME"
	case []byte:
		return "VARBINARY"
	}
	return "VARCHAR"
}

func pkKey(t *table, vals []Value) string {
	if len(t.pk) == 0 {
		return ""
	}
	parts := make([]string, len(t.pk))
	for i, p := range t.pk {
		v := vals[p]
		if s, ok := v.(string); ok {
			v = strings.ToLower(s) // default collation is case-insensitive
		}
		parts[i] = renderValue(v)
	}
	return strings.Join(parts, "|")
}

// uniqueConflict returns the row that conflicts with vals on a unique secondary index (not self).
func (c *conn) uniqueConflict(tx *txn, t *table, vals []Value, self *row) (*row, string) {
	for _, ix := range t.indexes {
		if !ix.unique {
			continue
		}
		null := false
		for _, ci := range ix.cols {
			if vals[ci] == nil {
				null = true
			}
		}
		if null {
			continue
		}
		for _, r := range t.rows {
			if r == self {
				continue
			}
			// the version this transaction sees, and the uncommitted version of another transaction (insert
			// or update of the indexed column): InnoDB makes the writer wait for that transaction
			cands := [][]Value{visible(tx, r)}
			if r.hasPending && r.owner != tx && r.pending != nil {
				cands = append(cands, r.pending)
			}
			for _, v := range cands {
				if v == nil {
					continue
				}
				same := true
				for _, ci := range ix.cols {
					if v[ci] == nil || compareValues(v[ci], vals[ci]) != 0 {
						same = false
						break
					}
				}
				if same {
					return r, ix.name
				}
			}
		}
	}
	return nil, ""
}

func (c *conn) execInsert(x *ast.InsertStmt, args []Value) (*resultSet, *execResult, []Write, error) {
	tn, err := tableNameOf(x.Table)
	if err != nil {
		return nil, nil, nil, err
	}
	t, err := c.srv.lookup(c.schema, tn)
	if err != nil {
		return nil, nil, nil, err
	}
	if x.Select != nil {
		return nil, nil, nil, myErr(1235, "memsql: INSERT ... SELECT is not supported")
	}
	var colIdx []int
	if len(x.Columns) == 0 {
		for i := range t.cols {
			colIdx = append(colIdx, i)
		}
	} else {
		for _, cn := range x.Columns {
			i, ok := t.colIdx[cn.Name.L]
			if !ok {
				return nil, nil, nil, myErr(1054, "Unknown column '%s' in 'field list'", cn.Name.O)
			}
			colIdx = append(colIdx, i)
		}
	}
	lists := x.Lists
	if len(x.Setlist) > 0 { // INSERT ... SET a=1
		colIdx = nil
		var one []ast.ExprNode
		for _, a := range x.Setlist {
			i, ok := t.colIdx[a.Column.Name.L]
			if !ok {
				return nil, nil, nil, myErr(1054, "Unknown column '%s' in 'field list'", a.Column.Name.O)
			}
			colIdx = append(colIdx, i)
			one = append(one, a.Expr)
		}
		lists = [][]ast.ExprNode{one}
	}
	res := &execResult{}
	var writes []Write
	now := time.Now()
	err = c.inStmtTx(func(tx *txn) error {
		for ri, list := range lists {
			if len(list) != len(colIdx) {
				return myErr(1136, "Column count doesn't match value count at row %d", ri+1)
			}
			vals := make([]Value, len(t.cols))
			given := make([]bool, len(t.cols))
			for k, ex := range list {
				e := &evalCtx{t: t, args: args, now: now}
				v, err := e.eval(ex)
				if err != nil {
					return err
				}
				ci := colIdx[k]
				if _, isDef := v.(defaultMarker); isDef {
					continue
				}
				given[ci] = true
				vals[ci] = v
			}
			for i, col := range t.cols {
				if given[i] {
					if vals[i] == nil && col.AutoInc {
						given[i] = false
					} else {
						cv, err := convertForColumn(col, vals[i])
						if err != nil {
							return err
						}
						vals[i] = cv
						if col.AutoInc {
							if n, ok := cv.(int64); ok {
								if n == 0 {
									given[i] = false
								} else if n >= t.autoInc {
									t.autoInc = n + 1
								}
							}
						}
					}
				}
				if !given[i] {
					switch {
					case col.AutoInc:
						// generated values are offset 1 + n*step (auto_increment_increment), above what is used
						step := c.srv.autoIncStep
						if step < 1 {
							step = 1
						}
						next := t.autoInc
						if r := (next - 1) % step; r != 0 {
							next += step - r
						}
						vals[i] = next
						if res.lastID == 0 {
							res.lastID = next
						}
						t.autoInc = next + step
					case col.HasDef:
						vals[i] = col.Default
					case col.Nullable:
						vals[i] = nil
					default:
						return myErr(1364, "Field '%s' doesn't have a default value", col.Name)
					}
				}
			}
			key := pkKey(t, vals)
			if len(t.pk) == 0 {
				t.rowSeq++
				key = fmt.Sprintf("#%d", t.rowSeq)
			}
			var dup *row
			dupName := "PRIMARY"
			if r := t.rows[key]; r != nil {
				if err := c.srv.lockRow(tx, r); err != nil {
					return err
				}
				if t.rows[key] == r && visible(tx, r) != nil {
					dup = r
				}
			}
			if dup == nil {
				if r, name := c.uniqueConflict(tx, t, vals, nil); r != nil {
					if err := c.srv.lockRow(tx, r); err != nil {
						return err
					}
					if v := visible(tx, r); v != nil {
						if r2, _ := c.uniqueConflict(tx, t, vals, nil); r2 == r {
							dup, dupName = r, name
						}
					}
				}
			}
			if dup != nil {
				if len(x.OnDuplicate) == 0 {
					if x.IgnoreErr {
						continue
					}
					return myErr(1062, "Duplicate entry '%s' for key '%s.%s'", strings.ReplaceAll(key, "|", "-"), t.name, dupName)
				}
				old := visible(tx, dup)
				nv := append([]Value(nil), old...)
				for _, a := range x.OnDuplicate {
					ci, ok := t.colIdx[a.Column.Name.L]
					if !ok {
						return myErr(1054, "Unknown column '%s' in 'field list'", a.Column.Name.O)
					}
					e := &evalCtx{t: t, row: nv, args: args, insert: vals, now: now}
					v, err := e.eval(a.Expr)
					if err != nil {
						return err
					}
					if _, isDef := v.(defaultMarker); isDef {
						v = t.cols[ci].Default
					}
					cv, err := convertForColumn(t.cols[ci], v)
					if err != nil {
						return err
					}
					nv[ci] = cv
				}
				if rowsEqual(old, nv) {
					continue // affected 0
				}
				w, err := c.applyUpdate(tx, t, dup, old, nv)
				if err != nil {
					return err
				}
				writes = append(writes, w...)
				res.affected += 2
				continue
			}
			r := t.rows[key]
			created := false
			if r == nil {
				r = &row{key: key}
				t.rows[key] = r
				created = true
			}
			if err := c.srv.lockRow(tx, r); err != nil {
				return err
			}
			tx.record(t, r, created)
			r.hasPending, r.pending, r.owner = true, vals, tx
			writes = append(writes, Write{Table: t.name, Op: "insert", Key: key, After: rowMap(t, vals)})
			res.affected++
		}
		return nil
	})
	if err != nil {
		return nil, nil, nil, err
	}
	return nil, res, writes, nil
}

func rowsEqual(a, b []Value) bool {
	if len(a) != len(b) {
		return false
	}
	for i := range a {
		if renderValue(a[i]) != renderValue(b[i]) {
			return false
		}
	}
	return true
}

// applyUpdate replaces the visible version of r by nv (handles primary-key changes).
func (c *conn) applyUpdate(tx *txn, t *table, r *row, old, nv []Value) ([]Write, error) {
	if x, name := c.uniqueConflict(tx, t, nv, r); x != nil {
		// wait for whoever holds that row, then look again
		if err := c.srv.lockRow(tx, x); err != nil {
			return nil, err
		}
		if x2, _ := c.uniqueConflict(tx, t, nv, r); x2 != nil {
			return nil, myErr(1062, "Duplicate entry for key '%s.%s'", t.name, name)
		}
	}
	newKey := pkKey(t, nv)
	if len(t.pk) == 0 || newKey == r.key {
		tx.record(t, r, false)
		r.hasPending, r.pending, r.owner = true, nv, tx
		return []Write{{Table: t.name, Op: "update", Key: r.key, Before: rowMap(t, old), After: rowMap(t, nv)}}, nil
	}
	// primary key changes: delete + insert
	if other := t.rows[newKey]; other != nil {
		if err := c.srv.lockRow(tx, other); err != nil {
			return nil, err
		}
		if visible(tx, other) != nil {
			return nil, myErr(1062, "Duplicate entry '%s' for key '%s.PRIMARY'", newKey, t.name)
		}
	}
	tx.record(t, r, false)
	r.hasPending, r.pending, r.owner = true, nil, tx
	nr := t.rows[newKey]
	created := false
	if nr == nil {
		nr = &row{key: newKey}
		t.rows[newKey] = nr
		created = true
	}
	if err := c.srv.lockRow(tx, nr); err != nil {
		return nil, err
	}
	tx.record(t, nr, created)
	nr.hasPending, nr.pending, nr.owner = true, nv, tx
	return []Write{{Table: t.name, Op: "update", Key: r.key, Before: rowMap(t, old), After: rowMap(t, nv)}}, nil
}

func (c *conn) execUpdate(x *ast.UpdateStmt, args []Value) (*resultSet, *execResult, []Write, error) {
	tn, err := tableNameOf(x.TableRefs)
	if err != nil {
		return nil, nil, nil, err
	}
	t, err := c.srv.lookup(c.schema, tn)
	if err != nil {
		return nil, nil, nil, err
	}
	res := &execResult{}
	var writes []Write
	now := time.Now()
	err = c.inStmtTx(func(tx *txn) error {
		ms, err := c.collect(tx, t, x.Where, args, true, x.Order, x.Limit)
		if err != nil {
			return err
		}
		for _, m := range ms {
			nv := append([]Value(nil), m.vals...)
			for _, a := range x.List {
				ci, ok := t.colIdx[a.Column.Name.L]
				if !ok {
					return myErr(1054, "Unknown column '%s' in 'field list'", a.Column.Name.O)
				}
				e := &evalCtx{t: t, row: nv, args: args, now: now}
				v, err := e.eval(a.Expr)
				if err != nil {
					return err
				}
				if _, isDef := v.(defaultMarker); isDef {
					v = t.cols[ci].Default
				}
				cv, err := convertForColumn(t.cols[ci], v)
				if err != nil {
					return err
				}
				nv[ci] = cv
			}
			if rowsEqual(m.vals, nv) {
				continue // matched but not changed
			}
			w, err := c.applyUpdate(tx, t, m.r, m.vals, nv)
			if err != nil {
				return err
			}
			writes = append(writes, w...)
			res.affected++
		}
		return nil
	})
	if err != nil {
		return nil, nil, nil, err
	}
	return nil, res, writes, nil
}

func (c *conn) execDelete(x *ast.DeleteStmt, args []Value) (*resultSet, *execResult, []Write, error) {
	tn, err := tableNameOf(x.TableRefs)
	if err != nil {
		return nil, nil, nil, err
	}
	t, err := c.srv.lookup(c.schema, tn)
	if err != nil {
		return nil, nil, nil, err
	}
	res := &execResult{}
	var writes []Write
	err = c.inStmtTx(func(tx *txn) error {
		ms, err := c.collect(tx, t, x.Where, args, true, x.Order, x.Limit)
		if err != nil {
			return err
		}
		for _, m := range ms {
			tx.record(t, m.r, false)
			m.r.hasPending, m.r.pending, m.r.owner = true, nil, tx
			writes = append(writes, Write{Table: t.name, Op: "delete", Key: m.r.key, Before: rowMap(t, m.vals)})
			res.affected++
		}
		return nil
	})
	if err != nil {
		return nil, nil, nil, err
	}
	return nil, res, writes, nil
}

// parseSQL parses with the embedded parser; a parser panic (its test driver gives up on some
// decimal literals) is reported as a syntax error.
func parseSQL(q string) (stmts []ast.StmtNode, err error) {
	defer func() {
		if r := recover(); r != nil {
			err = fmt.Errorf("parser panic: %v", r)
		}
	}()
	stmts, _, err = aparser.New().Parse(q, "", "")
	return
}
