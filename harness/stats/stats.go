// Package stats collects what a property run actually covered (cases, distinct non-trivial
// cases, label histogram, samples, exclusions, violations) and writes it as JSON for the
// check driver, which merges shards into /verif/evidence/<id>.json.
package stats

import (
	"encoding/json"
	"fmt"
	"hash/fnv"
	"os"
	"path/filepath"
	"sort"
	"strconv"
	"sync"
	"time"
)

// Violation is one failing case as written to a replay file.
type Violation struct {
	Property  string          `json:"property"`
	Test      string          `json:"test"`
	Signature string          `json:"signature"`
	Detail    string          `json:"detail"`
	Case      json.RawMessage `json:"case"`
}

type sample struct {
	h uint64
	v json.RawMessage
}

// Recorder is process-wide per property package.
type Recorder struct {
	Property string

	mu           sync.Mutex
	start        time.Time
	evals        map[string]int // per test function
	nontrivial   map[uint64]struct{}
	labels       map[string]int
	first        []json.RawMessage
	picks        []sample // smallest-hash non-trivial cases (deterministic "random" picks)
	last         json.RawMessage
	excluded     map[string]int
	inconclusive int
	violations   []Violation
	known        map[string]int // KNOWN-FINDING witnesses that still reproduce -> count
	exhaustive   map[string]interface{}
	extra        map[string]interface{}
	rule         string
	assumptions  []string
}

func New(property string) *Recorder {
	return &Recorder{
		Property:   property,
		start:      time.Now(),
		evals:      map[string]int{},
		nontrivial: map[uint64]struct{}{},
		labels:     map[string]int{},
		excluded:   map[string]int{},
		known:      map[string]int{},
		extra:      map[string]interface{}{},
	}
}

func (r *Recorder) SetRule(rule string) { r.mu.Lock(); r.rule = rule; r.mu.Unlock() }
func (r *Recorder) Assume(a ...string) {
	r.mu.Lock()
	r.assumptions = append(r.assumptions, a...)
	r.mu.Unlock()
}
func (r *Recorder) Extra(k string, v interface{}) { r.mu.Lock(); r.extra[k] = v; r.mu.Unlock() }

func hashOf(s string) uint64 {
	h := fnv.New64a()
	h.Write([]byte(s))
	return h.Sum64()
}

// Case records one executed case. canonical is the canonical form used for distinct counting
// (only consulted when nontrivial is true); sampleOf is marshalled lazily for samples.
func (r *Recorder) Case(test string, nontrivial bool, canonical string, sampleOf interface{}, labels ...string) {
	r.mu.Lock()
	defer r.mu.Unlock()
	r.evals[test]++
	for _, l := range labels {
		if l != "" {
			r.labels[l]++
		}
	}
	if nontrivial {
		r.labels["nontrivial"]++
	}
	var raw json.RawMessage
	marshal := func() json.RawMessage {
		if raw == nil {
			b, err := json.Marshal(sampleOf)
			if err != nil {
				b, _ = json.Marshal(fmt.Sprintf("%+v", sampleOf))
			}
			if len(b) > 6000 {
				b, _ = json.Marshal(string(b[:6000]) + "…(truncated)")
			}
			raw = b
		}
		return raw
	}
	if len(r.first) < 2 {
		r.first = append(r.first, marshal())
	}
	if nontrivial {
		h := hashOf(test + "|" + canonical)
		if _, ok := r.nontrivial[h]; !ok {
			r.nontrivial[h] = struct{}{}
			const keep = 4
			if len(r.picks) < keep || h < r.picks[len(r.picks)-1].h {
				r.picks = append(r.picks, sample{h, marshal()})
				sort.Slice(r.picks, func(i, j int) bool { return r.picks[i].h < r.picks[j].h })
				if len(r.picks) > keep {
					r.picks = r.picks[:keep]
				}
			}
		}
		if r.evals[test]%64 == 0 || r.last == nil {
			r.last = marshal()
		}
	}
}

func (r *Recorder) Label(l string, n int) { r.mu.Lock(); r.labels[l] += n; r.mu.Unlock() }

// Excluded counts a case (or a clause of the oracle) skipped because of a listed known finding.
func (r *Recorder) Excluded(findingID string) { r.mu.Lock(); r.excluded[findingID]++; r.mu.Unlock() }
func (r *Recorder) Inconclusive()             { r.mu.Lock(); r.inconclusive++; r.mu.Unlock() }

// KnownReproduced notes that the witness of a listed finding still fails on this tree.
func (r *Recorder) KnownReproduced(findingID, what string) {
	r.mu.Lock()
	r.known[findingID+"\t"+what]++
	r.mu.Unlock()
}

func (r *Recorder) Exhaustive(part map[string]interface{}) {
	r.mu.Lock()
	if r.exhaustive == nil {
		r.exhaustive = map[string]interface{}{}
	}
	for k, v := range part {
		r.exhaustive[k] = v
	}
	r.mu.Unlock()
}

// Violation records a failing case and writes its replay file (overwriting the file of the
// same test: rapid re-runs the minimal case last, so the file left behind is the shrunk one).
func (r *Recorder) Violation(test, signature, detail string, c interface{}) string {
	raw, err := json.Marshal(c)
	if err != nil {
		raw, _ = json.Marshal(fmt.Sprintf("%+v", c))
	}
	v := Violation{Property: r.Property, Test: test, Signature: signature, Detail: detail, Case: raw}
	r.mu.Lock()
	replaced := false
	for i := range r.violations {
		if r.violations[i].Test == test {
			r.violations[i] = v
			replaced = true
		}
	}
	if !replaced {
		r.violations = append(r.violations, v)
	}
	r.mu.Unlock()
	dir := os.Getenv("VERIF_REPLAY_DIR")
	if dir == "" {
		dir = os.TempDir()
	}
	_ = os.MkdirAll(dir, 0o755)
	name := fmt.Sprintf("%s-%s-seed%s-shard%s.json", r.Property, test, envOr("VERIF_SEED", "0"), envOr("VERIF_SHARD", "0"))
	path := filepath.Join(dir, name)
	b, _ := json.MarshalIndent(v, "", " ")
	_ = os.WriteFile(path, b, 0o644)
	r.Flush()
	return path
}

func envOr(k, d string) string {
	if v := os.Getenv(k); v != "" {
		return v
	}
	return d
}

type out struct {
	Property     string                 `json:"property"`
	Shard        int                    `json:"shard"`
	Evaluations  int                    `json:"evaluations"`
	PerTest      map[string]int         `json:"per_test"`
	Nontrivial   []string               `json:"nontrivial_hashes"`
	Labels       map[string]int         `json:"labels"`
	Samples      []json.RawMessage      `json:"samples"`
	Excluded     map[string]int         `json:"excluded_by_known_finding"`
	Inconclusive int                    `json:"inconclusive"`
	Violations   []Violation            `json:"violations"`
	Known        []string               `json:"known_reproduced"`
	Exhaustive   map[string]interface{} `json:"exhaustive_part,omitempty"`
	Extra        map[string]interface{} `json:"extra,omitempty"`
	Rule         string                 `json:"rule"`
	Assumptions  []string               `json:"assumptions"`
	WallS        float64                `json:"wall_s"`
}

// Flush writes the shard statistics to $VERIF_STATS_OUT (no-op when unset).
func (r *Recorder) Flush() {
	path := os.Getenv("VERIF_STATS_OUT")
	if path == "" {
		return
	}
	r.mu.Lock()
	defer r.mu.Unlock()
	o := out{Property: r.Property, PerTest: r.evals, Labels: r.labels, Excluded: r.excluded,
		Inconclusive: r.inconclusive, Violations: r.violations, Exhaustive: r.exhaustive, Extra: r.extra,
		Rule: r.rule, Assumptions: r.assumptions, WallS: time.Since(r.start).Seconds()}
	o.Shard, _ = strconv.Atoi(envOr("VERIF_SHARD", "0"))
	for _, n := range r.evals {
		o.Evaluations += n
	}
	for h := range r.nontrivial {
		o.Nontrivial = append(o.Nontrivial, strconv.FormatUint(h, 16))
	}
	sort.Strings(o.Nontrivial)
	o.Samples = append(o.Samples, r.first...)
	for _, p := range r.picks {
		o.Samples = append(o.Samples, p.v)
	}
	if r.last != nil {
		o.Samples = append(o.Samples, r.last)
	}
	for k := range r.known {
		o.Known = append(o.Known, k)
	}
	sort.Strings(o.Known)
	b, _ := json.Marshal(o)
	tmp := path + ".tmp"
	if err := os.WriteFile(tmp, b, 0o644); err == nil {
		_ = os.Rename(tmp, path)
	}
}

// Tier returns "quick" or "thorough".
func Tier() string { return envOr("VERIF_TIER", "quick") }

// Thorough reports whether the thorough tier is running.
func Thorough() bool { return Tier() == "thorough" }

// Scale returns q in quick tier and t in thorough.
func Scale(q, t int) int {
	if Thorough() {
		return t
	}
	return q
}

// ---- known findings -------------------------------------------------------------------------

type Finding struct {
	Status    string `json:"status"` // "known" | "fixed"
	Property  string `json:"property"`
	ID        string `json:"id"`
	What      string `json:"what"`
	Signature string `json:"signature"`
	// Signatures lists further signatures of the same root cause (same repair removes them).
	Signatures []string        `json:"signatures,omitempty"`
	Witness    json.RawMessage `json:"witness,omitempty"`
	Commit     string          `json:"commit,omitempty"`
}

// LoadKnown returns the known (not fixed) findings of a property from $VERIF_KNOWN.
func LoadKnown(property string) []Finding {
	path := os.Getenv("VERIF_KNOWN")
	if path == "" {
		return nil
	}
	b, err := os.ReadFile(path)
	if err != nil {
		return nil
	}
	var all struct {
		Findings []Finding `json:"findings"`
	}
	if err := json.Unmarshal(b, &all); err != nil {
		panic("known_findings.json: " + err.Error())
	}
	var res []Finding
	for _, f := range all.Findings {
		if f.Property == property && f.Status == "known" {
			res = append(res, f)
		}
	}
	return res
}

// LoadReplay reads the violation file named by $VERIF_REPLAY_FILE.
func LoadReplay() (*Violation, error) {
	path := os.Getenv("VERIF_REPLAY_FILE")
	if path == "" {
		return nil, nil
	}
	b, err := os.ReadFile(path)
	if err != nil {
		return nil, err
	}
	var v Violation
	if err := json.Unmarshal(b, &v); err != nil {
		return nil, err
	}
	return &v, nil
}

// Hash exposes the recorder's string hash (for canonical forms of large values).
func Hash(s string) uint64 { return hashOf(s) }

// AllSignatures returns Signature plus Signatures.
func (f Finding) AllSignatures() []string {
	out := []string{}
	if f.Signature != "" {
		out = append(out, f.Signature)
	}
	return append(out, f.Signatures...)
}
