package refwire

import "reflect"

// EqualMsg compares two message values treating nil and empty byte slices (and maps) as equal.
func EqualMsg(a, b interface{}) bool {
	if a == nil || b == nil {
		return a == nil && b == nil
	}
	if reflect.TypeOf(a) != reflect.TypeOf(b) {
		return false
	}
	return reflect.DeepEqual(norm(reflect.ValueOf(a)).Interface(), norm(reflect.ValueOf(b)).Interface())
}

func norm(v reflect.Value) reflect.Value {
	p := reflect.New(v.Type()).Elem()
	p.Set(v)
	var walk func(x reflect.Value)
	walk = func(x reflect.Value) {
		switch x.Kind() {
		case reflect.Struct:
			for i := 0; i < x.NumField(); i++ {
				walk(x.Field(i))
			}
		case reflect.Slice:
			if x.Type().Elem().Kind() == reflect.Uint8 && x.Len() == 0 && x.CanSet() {
				x.Set(reflect.Zero(x.Type()))
			}
		case reflect.Map:
			if x.Len() == 0 && x.CanSet() {
				x.Set(reflect.Zero(x.Type()))
			}
		}
	}
	walk(p)
	return p
}
