// Package refwire is an independent statement of the Seata v1 wire layout: one table of message
// bodies (written from the protocol as implemented by the Java reference, see DESIGN §5 C12) and
// the 16-byte frame with its optional head map. It shares no code with seata-go's codec package;
// it only uses seata-go's message structs as the value type.
package refwire

import (
	"encoding/binary"
	"errors"
	"fmt"
	"sort"
	"time"

	"seata.apache.org/seata-go/pkg/protocol/branch"
	"seata.apache.org/seata-go/pkg/protocol/message"
	serror "seata.apache.org/seata-go/pkg/util/errors"
)

// ---- primitives ------------------------------------------------------------------------------

type W struct{ B []byte }

func (w *W) U8(v byte)    { w.B = append(w.B, v) }
func (w *W) U16(v uint16) { w.B = binary.BigEndian.AppendUint16(w.B, v) }
func (w *W) U32(v uint32) { w.B = binary.BigEndian.AppendUint32(w.B, v) }
func (w *W) U64(v uint64) { w.B = binary.BigEndian.AppendUint64(w.B, v) }
func (w *W) S16(s string) {
	if len(s) > 0xffff {
		panic("refwire: str16 too long")
	}
	w.U16(uint16(len(s)))
	w.B = append(w.B, s...)
}
func (w *W) S32(s string) { w.U32(uint32(len(s))); w.B = append(w.B, s...) }

var ErrShort = errors.New("refwire: short body")

type R struct {
	B   []byte
	Off int
	Err error
}

func (r *R) take(n int) []byte {
	if r.Err != nil {
		return nil
	}
	if n < 0 || r.Off+n > len(r.B) {
		r.Err = ErrShort
		return nil
	}
	b := r.B[r.Off : r.Off+n]
	r.Off += n
	return b
}
func (r *R) U8() byte {
	b := r.take(1)
	if b == nil {
		return 0
	}
	return b[0]
}
func (r *R) U16() uint16 {
	b := r.take(2)
	if b == nil {
		return 0
	}
	return binary.BigEndian.Uint16(b)
}
func (r *R) U32() uint32 {
	b := r.take(4)
	if b == nil {
		return 0
	}
	return binary.BigEndian.Uint32(b)
}
func (r *R) U64() uint64 {
	b := r.take(8)
	if b == nil {
		return 0
	}
	return binary.BigEndian.Uint64(b)
}
func (r *R) S16() string { n := r.U16(); return string(r.take(int(n))) }
func (r *R) S32() string { n := r.U32(); return string(r.take(int(n))) }

// ---- shared pieces ---------------------------------------------------------------------------

// MaxMsg is the largest error message the layout can carry (signed 16-bit length).
const MaxMsg = 32767

// result = AbstractResultMessage: code:1 [+ msg:str16 iff code == Failed]
func encResult(w *W, m message.AbstractResultMessage) {
	w.U8(byte(m.ResultCode))
	if m.ResultCode == message.ResultCodeFailed {
		msg := m.Msg
		if len(msg) > MaxMsg {
			msg = msg[:MaxMsg]
		}
		w.S16(msg)
	}
}
func decResult(r *R) (m message.AbstractResultMessage) {
	m.ResultCode = message.ResultCode(r.U8())
	if m.ResultCode == message.ResultCodeFailed {
		m.Msg = r.S16()
	}
	return
}

// txResp = AbstractTransactionResponse: result + exCode:1
func encTx(w *W, m message.AbstractTransactionResponse) {
	encResult(w, m.AbstractResultMessage)
	w.U8(byte(m.TransactionErrorCode))
}
func decTx(r *R) (m message.AbstractTransactionResponse) {
	m.AbstractResultMessage = decResult(r)
	m.TransactionErrorCode = serror.TransactionErrorCode(r.U8())
	return
}
func encGlobalEndReq(w *W, m message.AbstractGlobalEndRequest) {
	w.S16(m.Xid)
	w.S16(string(m.ExtraData))
}
func decGlobalEndReq(r *R) (m message.AbstractGlobalEndRequest) {
	m.Xid = r.S16()
	m.ExtraData = []byte(r.S16())
	return
}
func encGlobalEndResp(w *W, m message.AbstractGlobalEndResponse) {
	encTx(w, m.AbstractTransactionResponse)
	w.U8(byte(m.GlobalStatus))
}
func decGlobalEndResp(r *R) (m message.AbstractGlobalEndResponse) {
	m.AbstractTransactionResponse = decTx(r)
	m.GlobalStatus = message.GlobalStatus(r.U8())
	return
}
func encBranchEndReq(w *W, m message.AbstractBranchEndRequest) {
	w.S16(m.Xid)
	w.U64(uint64(m.BranchId))
	w.U8(byte(m.BranchType))
	w.S16(m.ResourceId)
	w.S32(string(m.ApplicationData))
}
func decBranchEndReq(r *R) (m message.AbstractBranchEndRequest) {
	m.Xid = r.S16()
	m.BranchId = int64(r.U64())
	m.BranchType = branch.BranchType(r.U8())
	m.ResourceId = r.S16()
	m.ApplicationData = []byte(r.S32())
	return
}
func encBranchEndResp(w *W, m message.AbstractBranchEndResponse) {
	encTx(w, m.AbstractTransactionResponse)
	w.S16(m.Xid)
	w.U64(uint64(m.BranchId))
	w.U8(byte(m.BranchStatus))
}
func decBranchEndResp(r *R) (m message.AbstractBranchEndResponse) {
	m.AbstractTransactionResponse = decTx(r)
	m.Xid = r.S16()
	m.BranchId = int64(r.U64())
	m.BranchStatus = branch.BranchStatus(r.U8())
	return
}
func encIdentReq(w *W, m message.AbstractIdentifyRequest) {
	w.S16(m.Version)
	w.S16(m.ApplicationId)
	w.S16(m.TransactionServiceGroup)
	w.S16(string(m.ExtraData))
}
func decIdentReq(r *R) (m message.AbstractIdentifyRequest) {
	m.Version = r.S16()
	m.ApplicationId = r.S16()
	m.TransactionServiceGroup = r.S16()
	m.ExtraData = []byte(r.S16())
	return
}
func encIdentResp(w *W, m message.AbstractIdentifyResponse) {
	if m.Identified {
		w.U8(1)
	} else {
		w.U8(0)
	}
	w.S16(m.Version)
}
func decIdentResp(r *R) (m message.AbstractIdentifyResponse) {
	m.Identified = r.U8() == 1
	m.Version = r.S16()
	return
}
func encRegisterLike(w *W, m message.BranchRegisterRequest) {
	w.S16(m.Xid)
	w.U8(byte(m.BranchType))
	w.S16(m.ResourceId)
	w.S32(m.LockKey)
	w.S32(string(m.ApplicationData))
}
func decRegisterLike(r *R) (m message.BranchRegisterRequest) {
	m.Xid = r.S16()
	m.BranchType = branch.BranchType(r.U8())
	m.ResourceId = r.S16()
	m.LockKey = r.S32()
	m.ApplicationData = []byte(r.S32())
	return
}

// ---- the table -------------------------------------------------------------------------------

// Entry describes one message type of the protocol.
type Entry struct {
	Code int
	Name string
	Enc  func(w *W, m interface{})
	Dec  func(r *R) interface{}
	Zero interface{} // a zero value of the Go message type
}

// Table lists the 24 message types a Seata v1 client sends or receives, keyed by type code.
var Table = []Entry{
	{1, "GlobalBeginRequest", func(w *W, v interface{}) {
		m := v.(message.GlobalBeginRequest)
		w.U32(uint32(int32(m.Timeout / time.Millisecond)))
		w.S16(m.TransactionName)
	}, func(r *R) interface{} {
		var m message.GlobalBeginRequest
		m.Timeout = time.Duration(int32(r.U32())) * time.Millisecond
		m.TransactionName = r.S16()
		return m
	}, message.GlobalBeginRequest{}},
	{2, "GlobalBeginResponse", func(w *W, v interface{}) {
		m := v.(message.GlobalBeginResponse)
		encTx(w, m.AbstractTransactionResponse)
		w.S16(m.Xid)
		w.S16(string(m.ExtraData))
	}, func(r *R) interface{} {
		var m message.GlobalBeginResponse
		m.AbstractTransactionResponse = decTx(r)
		m.Xid = r.S16()
		m.ExtraData = []byte(r.S16())
		return m
	}, message.GlobalBeginResponse{}},
	{3, "BranchCommitRequest", func(w *W, v interface{}) {
		encBranchEndReq(w, v.(message.BranchCommitRequest).AbstractBranchEndRequest)
	}, func(r *R) interface{} {
		return message.BranchCommitRequest{AbstractBranchEndRequest: decBranchEndReq(r)}
	}, message.BranchCommitRequest{}},
	{4, "BranchCommitResponse", func(w *W, v interface{}) {
		encBranchEndResp(w, v.(message.BranchCommitResponse).AbstractBranchEndResponse)
	}, func(r *R) interface{} {
		return message.BranchCommitResponse{AbstractBranchEndResponse: decBranchEndResp(r)}
	}, message.BranchCommitResponse{}},
	{5, "BranchRollbackRequest", func(w *W, v interface{}) {
		encBranchEndReq(w, v.(message.BranchRollbackRequest).AbstractBranchEndRequest)
	}, func(r *R) interface{} {
		return message.BranchRollbackRequest{AbstractBranchEndRequest: decBranchEndReq(r)}
	}, message.BranchRollbackRequest{}},
	{6, "BranchRollbackResponse", func(w *W, v interface{}) {
		encBranchEndResp(w, v.(message.BranchRollbackResponse).AbstractBranchEndResponse)
	}, func(r *R) interface{} {
		return message.BranchRollbackResponse{AbstractBranchEndResponse: decBranchEndResp(r)}
	}, message.BranchRollbackResponse{}},
	{7, "GlobalCommitRequest", func(w *W, v interface{}) {
		encGlobalEndReq(w, v.(message.GlobalCommitRequest).AbstractGlobalEndRequest)
	}, func(r *R) interface{} {
		return message.GlobalCommitRequest{AbstractGlobalEndRequest: decGlobalEndReq(r)}
	}, message.GlobalCommitRequest{}},
	{8, "GlobalCommitResponse", func(w *W, v interface{}) {
		encGlobalEndResp(w, v.(message.GlobalCommitResponse).AbstractGlobalEndResponse)
	}, func(r *R) interface{} {
		return message.GlobalCommitResponse{AbstractGlobalEndResponse: decGlobalEndResp(r)}
	}, message.GlobalCommitResponse{}},
	{9, "GlobalRollbackRequest", func(w *W, v interface{}) {
		encGlobalEndReq(w, v.(message.GlobalRollbackRequest).AbstractGlobalEndRequest)
	}, func(r *R) interface{} {
		return message.GlobalRollbackRequest{AbstractGlobalEndRequest: decGlobalEndReq(r)}
	}, message.GlobalRollbackRequest{}},
	{10, "GlobalRollbackResponse", func(w *W, v interface{}) {
		encGlobalEndResp(w, v.(message.GlobalRollbackResponse).AbstractGlobalEndResponse)
	}, func(r *R) interface{} {
		return message.GlobalRollbackResponse{AbstractGlobalEndResponse: decGlobalEndResp(r)}
	}, message.GlobalRollbackResponse{}},
	{11, "BranchRegisterRequest", func(w *W, v interface{}) {
		encRegisterLike(w, v.(message.BranchRegisterRequest))
	}, func(r *R) interface{} { return decRegisterLike(r) }, message.BranchRegisterRequest{}},
	{12, "BranchRegisterResponse", func(w *W, v interface{}) {
		m := v.(message.BranchRegisterResponse)
		encTx(w, m.AbstractTransactionResponse)
		w.U64(uint64(m.BranchId))
	}, func(r *R) interface{} {
		var m message.BranchRegisterResponse
		m.AbstractTransactionResponse = decTx(r)
		m.BranchId = int64(r.U64())
		return m
	}, message.BranchRegisterResponse{}},
	{13, "BranchReportRequest", func(w *W, v interface{}) {
		m := v.(message.BranchReportRequest)
		w.S16(m.Xid)
		w.U64(uint64(m.BranchId))
		w.U8(byte(m.Status))
		w.S16(m.ResourceId)
		w.S32(string(m.ApplicationData))
		w.U8(byte(m.BranchType))
	}, func(r *R) interface{} {
		var m message.BranchReportRequest
		m.Xid = r.S16()
		m.BranchId = int64(r.U64())
		m.Status = branch.BranchStatus(r.U8())
		m.ResourceId = r.S16()
		m.ApplicationData = []byte(r.S32())
		m.BranchType = branch.BranchType(r.U8())
		return m
	}, message.BranchReportRequest{}},
	{14, "BranchReportResponse", func(w *W, v interface{}) {
		encTx(w, v.(message.BranchReportResponse).AbstractTransactionResponse)
	}, func(r *R) interface{} {
		return message.BranchReportResponse{AbstractTransactionResponse: decTx(r)}
	}, message.BranchReportResponse{}},
	{15, "GlobalStatusRequest", func(w *W, v interface{}) {
		encGlobalEndReq(w, v.(message.GlobalStatusRequest).AbstractGlobalEndRequest)
	}, func(r *R) interface{} {
		return message.GlobalStatusRequest{AbstractGlobalEndRequest: decGlobalEndReq(r)}
	}, message.GlobalStatusRequest{}},
	{16, "GlobalStatusResponse", func(w *W, v interface{}) {
		encGlobalEndResp(w, v.(message.GlobalStatusResponse).AbstractGlobalEndResponse)
	}, func(r *R) interface{} {
		return message.GlobalStatusResponse{AbstractGlobalEndResponse: decGlobalEndResp(r)}
	}, message.GlobalStatusResponse{}},
	{17, "GlobalReportRequest", func(w *W, v interface{}) {
		m := v.(message.GlobalReportRequest)
		encGlobalEndReq(w, m.AbstractGlobalEndRequest)
		w.U8(byte(m.GlobalStatus))
	}, func(r *R) interface{} {
		var m message.GlobalReportRequest
		m.AbstractGlobalEndRequest = decGlobalEndReq(r)
		m.GlobalStatus = message.GlobalStatus(r.U8())
		return m
	}, message.GlobalReportRequest{}},
	{18, "GlobalReportResponse", func(w *W, v interface{}) {
		encGlobalEndResp(w, v.(message.GlobalReportResponse).AbstractGlobalEndResponse)
	}, func(r *R) interface{} {
		return message.GlobalReportResponse{AbstractGlobalEndResponse: decGlobalEndResp(r)}
	}, message.GlobalReportResponse{}},
	{21, "GlobalLockQueryRequest", func(w *W, v interface{}) {
		encRegisterLike(w, v.(message.GlobalLockQueryRequest).BranchRegisterRequest)
	}, func(r *R) interface{} {
		return message.GlobalLockQueryRequest{BranchRegisterRequest: decRegisterLike(r)}
	}, message.GlobalLockQueryRequest{}},
	{22, "GlobalLockQueryResponse", func(w *W, v interface{}) {
		m := v.(message.GlobalLockQueryResponse)
		encTx(w, m.AbstractTransactionResponse)
		if m.Lockable {
			w.U16(1)
		} else {
			w.U16(0)
		}
	}, func(r *R) interface{} {
		var m message.GlobalLockQueryResponse
		m.AbstractTransactionResponse = decTx(r)
		m.Lockable = r.U16() == 1
		return m
	}, message.GlobalLockQueryResponse{}},
	{101, "RegisterTMRequest", func(w *W, v interface{}) {
		encIdentReq(w, v.(message.RegisterTMRequest).AbstractIdentifyRequest)
	}, func(r *R) interface{} {
		return message.RegisterTMRequest{AbstractIdentifyRequest: decIdentReq(r)}
	}, message.RegisterTMRequest{}},
	{102, "RegisterTMResponse", func(w *W, v interface{}) {
		encIdentResp(w, v.(message.RegisterTMResponse).AbstractIdentifyResponse)
	}, func(r *R) interface{} {
		return message.RegisterTMResponse{AbstractIdentifyResponse: decIdentResp(r)}
	}, message.RegisterTMResponse{}},
	{103, "RegisterRMRequest", func(w *W, v interface{}) {
		m := v.(message.RegisterRMRequest)
		encIdentReq(w, m.AbstractIdentifyRequest)
		w.S32(m.ResourceIds)
	}, func(r *R) interface{} {
		var m message.RegisterRMRequest
		m.AbstractIdentifyRequest = decIdentReq(r)
		m.ResourceIds = r.S32()
		return m
	}, message.RegisterRMRequest{}},
	{104, "RegisterRMResponse", func(w *W, v interface{}) {
		encIdentResp(w, v.(message.RegisterRMResponse).AbstractIdentifyResponse)
	}, func(r *R) interface{} {
		return message.RegisterRMResponse{AbstractIdentifyResponse: decIdentResp(r)}
	}, message.RegisterRMResponse{}},
}

var byCode = func() map[int]*Entry {
	m := map[int]*Entry{}
	for i := range Table {
		m[Table[i].Code] = &Table[i]
	}
	return m
}()

// ByCode returns the table entry of a type code, or nil.
func ByCode(code int) *Entry { return byCode[code] }

// CodeOf returns the table's type code for a Go message value (0 when the type is not in the table).
func CodeOf(m interface{}) int {
	t := fmt.Sprintf("%T", m)
	for i := range Table {
		if fmt.Sprintf("%T", Table[i].Zero) == t {
			return Table[i].Code
		}
	}
	return 0
}

// EncodeBody returns typeCode:2 ‖ fields, as a Seata v1 peer would put it after the head map.
func EncodeBody(m interface{}) []byte {
	code := CodeOf(m)
	if code == 0 {
		panic(fmt.Sprintf("refwire: %T not in table", m))
	}
	w := &W{}
	w.U16(uint16(code))
	byCode[code].Enc(w, m)
	return w.B
}

// DecodeBody decodes typeCode:2 ‖ fields; rest is the number of unread bytes.
func DecodeBody(b []byte) (m interface{}, rest int, err error) {
	r := &R{B: b}
	code := int(r.U16())
	if r.Err != nil {
		return nil, 0, r.Err
	}
	e := byCode[code]
	if e == nil {
		return nil, 0, fmt.Errorf("refwire: unknown type code %d", code)
	}
	m = e.Dec(r)
	if r.Err != nil {
		return nil, 0, r.Err
	}
	return m, len(b) - r.Off, nil
}

// ---- frames ----------------------------------------------------------------------------------

// Frame is the 16-byte v1 header + head map + body.
type Frame struct {
	ID         int32
	Type       byte
	Codec      byte
	Compressor byte
	HeadMap    map[string]string
	Body       []byte // typeCode ‖ fields, empty for heartbeats
}

// EncodeFrame serialises a frame; head-map entries are written in sorted key order.
func EncodeFrame(f Frame) []byte {
	var hm W
	keys := make([]string, 0, len(f.HeadMap))
	for k := range f.HeadMap {
		keys = append(keys, k)
	}
	sort.Strings(keys)
	for _, k := range keys {
		hm.S16(k)
		hm.S16(f.HeadMap[k])
	}
	head := 16 + len(hm.B)
	total := head + len(f.Body)
	w := &W{}
	w.U8(0xda)
	w.U8(0xda)
	w.U8(1)
	w.U32(uint32(total))
	w.U16(uint16(head))
	w.U8(f.Type)
	w.U8(f.Codec)
	w.U8(f.Compressor)
	w.U32(uint32(f.ID))
	w.B = append(w.B, hm.B...)
	w.B = append(w.B, f.Body...)
	return w.B
}

var ErrIncomplete = errors.New("refwire: incomplete frame")

// DecodeFrame reads one frame from the start of b and returns it with its length.
func DecodeFrame(b []byte) (Frame, int, error) {
	var f Frame
	if len(b) < 16 {
		return f, 0, ErrIncomplete
	}
	if b[0] != 0xda || b[1] != 0xda {
		return f, 0, errors.New("refwire: bad magic")
	}
	total := int(binary.BigEndian.Uint32(b[3:7]))
	head := int(binary.BigEndian.Uint16(b[7:9]))
	if head < 16 || total < head {
		return f, 0, errors.New("refwire: bad lengths")
	}
	if len(b) < total {
		return f, 0, ErrIncomplete
	}
	f.Type, f.Codec, f.Compressor = b[9], b[10], b[11]
	f.ID = int32(binary.BigEndian.Uint32(b[12:16]))
	r := &R{B: b[16:head]}
	if head > 16 {
		f.HeadMap = map[string]string{}
	}
	for r.Off < len(r.B) {
		k := r.S16()
		v := r.S16()
		if r.Err != nil {
			return f, 0, errors.New("refwire: bad head map")
		}
		f.HeadMap[k] = v
	}
	f.Body = b[head:total]
	return f, total, nil
}
