// Package pt is the glue between rapid properties, the statistics recorder, the known-findings
// file and the replay tier.
package pt

import (
	"encoding/json"
	"fmt"
	"os"
	"runtime/debug"
	"strings"
	"sync"
	"testing"

	"pgregory.net/rapid"

	"verifharness/stats"
)

// TB is the subset of testing.TB / *rapid.T the helpers need.
type TB interface {
	Helper()
	Fatalf(format string, args ...interface{})
	Logf(format string, args ...interface{})
}

// Failure describes why a case violates the property.
type Failure struct {
	Signature string // narrow class: input class + call site (see DESIGN §6)
	Detail    string
}

func Failf(sig, format string, a ...interface{}) *Failure {
	return &Failure{Signature: sig, Detail: fmt.Sprintf(format, a...)}
}

// Ctx is one per property package.
type Ctx struct {
	Rec *stats.Recorder
	// ProcessFields are case fields that describe settings fixed per process; a recorded violation carries them
	ProcessFields map[string]string

	mu     sync.Mutex
	active map[string]stats.Finding // signature -> finding whose witness reproduced in this process
	listed []stats.Finding
}

// New loads the known findings of the property. Witnesses are run with RunWitnesses.
func New(property string) *Ctx {
	c := &Ctx{Rec: stats.New(property), active: map[string]stats.Finding{}}
	c.listed = stats.LoadKnown(property)
	return c
}

// RunWitnesses executes the witness of every listed finding through run (which must return the
// failure the witness produces on this tree, or nil). A finding whose witness still fails with its
// listed signature becomes active: generated cases failing with that signature are counted as
// excluded instead of reported. A finding whose witness passes is inactive (nothing suppressed).
func (c *Ctx) RunWitnesses(run func(f stats.Finding) *Failure) {
	for _, f := range c.listed {
		fl := safeRun(func() *Failure { return run(f) })
		if fl == nil {
			continue
		}
		match := false
		for _, sg := range f.AllSignatures() {
			match = match || sg == fl.Signature
		}
		if match {
			c.mu.Lock()
			for _, sg := range f.AllSignatures() {
				c.active[sg] = f
			}
			c.mu.Unlock()
			c.Rec.KnownReproduced(f.ID, f.What)
		}
	}
	c.Rec.Flush()
}

func safeRun(f func() *Failure) (fl *Failure) {
	defer func() {
		if r := recover(); r != nil {
			fl = &Failure{Signature: "panic", Detail: fmt.Sprintf("panic: %v\n%s", r, debug.Stack())}
		}
	}()
	return f()
}

// Known reports whether sig belongs to an active known finding.
func (c *Ctx) Known(sig string) (stats.Finding, bool) {
	c.mu.Lock()
	defer c.mu.Unlock()
	f, ok := c.active[sig]
	return f, ok
}

// KnownActive reports whether the finding with this id is active (witness reproduced).
func (c *Ctx) KnownActive(id string) bool {
	c.mu.Lock()
	defer c.mu.Unlock()
	for _, f := range c.active {
		if f.ID == id {
			return true
		}
	}
	return false
}

// Judge handles the outcome of one case: nil → nothing; known signature → counted as excluded;
// otherwise a violation is recorded (replay file written) and the test fails.
func (c *Ctx) Judge(t TB, test string, fl *Failure, cs interface{}) {
	t.Helper()
	if fl == nil {
		return
	}
	if f, ok := c.Known(fl.Signature); ok {
		c.Rec.Excluded(f.ID)
		return
	}
	if os.Getenv("VERIF_SURVEY") != "" {
		// triage mode (never used by registered checks): count signatures instead of stopping at the first
		c.Rec.Label("survey:"+fl.Signature, 1)
		if os.Getenv("VERIF_SURVEY") == "2" {
			fmt.Fprintf(os.Stderr, "SURVEY %s :: %.300s\n", fl.Signature, fl.Detail)
		}
		if d := os.Getenv("VERIF_SURVEY_DIR"); d != "" {
			b, _ := json.Marshal(cs)
			_ = os.MkdirAll(d, 0o755)
			name := strings.NewReplacer("/", "_", " ", "_", "=", "_").Replace(fl.Signature)
			if _, err := os.Stat(d + "/" + name + ".json"); err != nil {
				_ = os.WriteFile(d+"/"+name+".json", b, 0o644)
				_ = os.WriteFile(d+"/"+name+".txt", []byte(fl.Detail), 0o644)
			}
		}
		return
	}
	// settings that are fixed per process (server profile, compressor) travel with the case, so that the replay
	// file reproduces in a process of its own
	if len(c.ProcessFields) > 0 {
		if b, err := json.Marshal(cs); err == nil {
			var m map[string]interface{}
			if json.Unmarshal(b, &m) == nil && m != nil {
				for k, v := range c.ProcessFields {
					if cur, ok := m[k].(string); !ok || cur == "" {
						m[k] = v
					}
				}
				cs = m
			}
		}
	}
	path := c.Rec.Violation(test, fl.Signature, fl.Detail, cs)
	t.Fatalf("VIOLATION-CANDIDATE test=%s signature=%s replay=%s\n%s", test, fl.Signature, path, fl.Detail)
}

// Guard runs body and converts a panic into a Failure with the given signature prefix.
func Guard(sigPrefix string, body func() *Failure) (fl *Failure) {
	defer func() {
		if r := recover(); r != nil {
			fl = &Failure{Signature: sigPrefix + "/panic", Detail: fmt.Sprintf("panic: %v\n%s", r, debug.Stack())}
		}
	}()
	return body()
}

// Check runs a rapid property and flushes statistics afterwards.
func (c *Ctx) Check(t *testing.T, prop func(rt *rapid.T)) {
	defer c.Rec.Flush()
	rapid.Check(t, prop)
}

// Main is the TestMain body: run, flush, exit.
func (c *Ctx) Main(m *testing.M) {
	code := m.Run()
	c.Rec.Flush()
	os.Exit(code)
}

// Replay loads $VERIF_REPLAY_FILE into cs; returns false when no replay was requested.
func Replay(t *testing.T, cs interface{}) (*stats.Violation, bool) {
	v, err := stats.LoadReplay()
	if err != nil {
		t.Fatalf("replay file: %v", err)
	}
	if v == nil {
		return nil, false
	}
	if err := json.Unmarshal(v.Case, cs); err != nil {
		t.Fatalf("replay case: %v", err)
	}
	return v, true
}

// ReplayCaseString returns the string field name of the case in the replay file (VERIF_REPLAY_FILE), "" when
// there is no replay file or no such field. For settings that are fixed per process (server profile,
// compressor) and must therefore be known before the environment is built.
func ReplayCaseString(name string) string {
	v, err := stats.LoadReplay()
	if err != nil || v == nil {
		return ""
	}
	var m map[string]interface{}
	if json.Unmarshal(v.Case, &m) != nil {
		return ""
	}
	s, _ := m[name].(string)
	return s
}

// ReplayAll runs every saved regression input /verif/replays/<property>-*.json through run
// (seconds-long replay tier, part of every run).
func (c *Ctx) ReplayAll(t *testing.T, run func(v *stats.Violation) *Failure) {
	defer c.Rec.Flush()
	dir := os.Getenv("VERIF_DIR")
	if dir == "" {
		t.Skip("VERIF_DIR not set")
	}
	ents, _ := os.ReadDir(dir + "/replays")
	for _, e := range ents {
		name := e.Name()
		if e.IsDir() || len(name) < len(c.Rec.Property)+1 || name[:len(c.Rec.Property)+1] != c.Rec.Property+"-" || name[len(name)-5:] != ".json" {
			continue
		}
		b, err := os.ReadFile(dir + "/replays/" + name)
		if err != nil {
			continue
		}
		var v stats.Violation
		if err := json.Unmarshal(b, &v); err != nil {
			t.Fatalf("replay %s: %v", name, err)
		}
		fl := safeRun(func() *Failure { return run(&v) })
		c.Rec.Label("replayed-regression-inputs", 1)
		c.Judge(t, v.Test, fl, json.RawMessage(v.Case))
	}
}
